----------------------------- MODULE RecvClient -----------------------------
(* What the caller of recv_packet() / iter_received_packets() of a stream client or endpoint may observe, given what the peer
   did on the connection (C03 seen from the public API, where the transport calls of RecvEndpoint.tla are not observable:
   clients over real sockets, the asyncio socket adapter, the event loop between the calls).

     peer:    Write(n), Close (orderly end of stream, only after its last byte)
     caller:  Call(op, t)   op = "recv" (one packet) | "iter" (iter_received_packets), t = -1 (None) | 0 | > 0
              Packet        the pending call hands out the next packet (the call ends if op = "recv")
              RetEof        recv: ConnectionAbortedError
              RetTimeout    recv: TimeoutError
              IterStop      iter: the iterator finishes (timeout elapsed or end of stream - the caller cannot tell which)

   Laws (each is the guard of an action, so a trace that breaks one has no matching step):
     - packets come out in order, exactly once, and never before their last byte was written;
     - end of stream is reported only when the peer closed and every complete packet was handed out before;
       a trailing incomplete frame is never a packet;
     - once reported it is reported by every later call (never a packet, never a timeout, never blocking);
     - a call with a positive timeout gives up only if no complete packet and no end of stream was there to report;
       (a zero timeout only polls what the client already holds: the kernel may still have bytes, so it may time out)
     - a call never ends without one of these outcomes.                                                              *)
EXTENDS Naturals, Integers, Sequences, FiniteSets

CONSTANTS Params,        \* set of [ends |-> <<..>>, closeat |-> Int]   closeat = -1: the peer never closes
          Timeouts,      \* timeouts a call may use
          MaxCalls
VARIABLES par, wire, closed, delivered, eofrep, calling, op, tmo, ncalls
vars == <<par, wire, closed, delivered, eofrep, calling, op, tmo, ncalls>>

Ends == par.ends
Total == IF Len(Ends) = 0 THEN 0 ELSE Ends[Len(Ends)]
Limit == IF par.closeat >= 0 THEN par.closeat ELSE Total
Complete(n) == Cardinality({i \in 1..Len(Ends) : Ends[i] <= n})
INF == 0 - 1

Init == /\ par \in Params /\ wire = 0 /\ closed = FALSE /\ delivered = 0 /\ eofrep = FALSE /\ calling = FALSE
        /\ op = "none" /\ tmo = 0 /\ ncalls = 0

PeerWrite(n) == /\ ~closed /\ n >= 1 /\ wire + n <= Limit /\ wire' = wire + n
                /\ UNCHANGED <<par, closed, delivered, eofrep, calling, op, tmo, ncalls>>
PeerClose == /\ ~closed /\ par.closeat >= 0 /\ wire = Limit /\ closed' = TRUE
             /\ UNCHANGED <<par, wire, delivered, eofrep, calling, op, tmo, ncalls>>

Call(o, t) == /\ ~calling /\ ncalls < MaxCalls /\ t \in Timeouts /\ o \in {"recv", "iter"}
              /\ calling' = TRUE /\ op' = o /\ tmo' = t /\ ncalls' = ncalls + 1
              /\ UNCHANGED <<par, wire, closed, delivered, eofrep>>

\* the end of stream is there to be reported: the peer closed and every complete packet was handed out
AtEof == closed /\ delivered = Complete(wire)

Packet == /\ calling /\ ~eofrep /\ delivered < Complete(wire)
          /\ delivered' = delivered + 1
          /\ calling' = (op = "iter")
          /\ UNCHANGED <<par, wire, closed, eofrep, op, tmo, ncalls>>

RetEof == /\ calling /\ op = "recv" /\ AtEof
          /\ eofrep' = TRUE /\ calling' = FALSE
          /\ UNCHANGED <<par, wire, closed, delivered, op, tmo, ncalls>>

\* nothing to report within the time allowed
NothingThere == delivered = Complete(wire) /\ ~closed
RetTimeout == /\ calling /\ op = "recv" /\ ~eofrep /\ tmo # INF
              /\ (tmo > 0 => NothingThere)
              /\ calling' = FALSE
              /\ UNCHANGED <<par, wire, closed, delivered, eofrep, op, tmo, ncalls>>

\* the iterator ends: because its timeout elapsed with nothing to hand out, or because the stream ended.
\* With a finite timeout the two are indistinguishable from outside; without one it can only be the end of the stream.
IterStop == /\ calling /\ op = "iter"
            /\ \/ AtEof /\ eofrep' = (eofrep \/ tmo = INF)
               \/ ~eofrep /\ ~AtEof /\ tmo # INF /\ (tmo > 0 => NothingThere) /\ UNCHANGED eofrep
            /\ calling' = FALSE
            /\ UNCHANGED <<par, wire, closed, delivered, op, tmo, ncalls>>

Next == (\E n \in 1..3 : PeerWrite(n)) \/ PeerClose \/ (\E o \in {"recv", "iter"}, t \in Timeouts : Call(o, t))
        \/ Packet \/ RetEof \/ RetTimeout \/ IterStop
Spec == Init /\ [][Next]_vars

-----------------------------------------------------------------------------
NeverAhead == delivered <= Complete(wire)
EofAfterAll == eofrep => (closed /\ delivered = Complete(wire) /\ wire = Limit)
\* once the end of stream has been reported nothing is ever handed out again and it stays reported
EofIsFinal == [][eofrep => (eofrep' /\ delivered' = delivered)]_vars
\* a trailing incomplete frame is never delivered
NoPartial == delivered <= Len(Ends) /\ (par.closeat >= 0 => delivered <= Complete(par.closeat))
=============================================================================
