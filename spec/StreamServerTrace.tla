-------------------------- MODULE StreamServerTrace --------------------------
(* trace = [par |-> [ends, kinds, tau], events |-> << [ev, n, idx, d, ok] >>]  one per connection, from the real server:
   "feed" n | "eof" | "gen_start" | "req" idx ok (ok = equals the request sent) | "err" idx | "timeout" d (half ticks since the yield)
   | "gen_close" | "disconnect" (on_disconnection hook) | "closed" ok (the server-side transport is closed)
   | "end" ok (every frame was handed over)                                                                            *)
EXTENDS StreamServer, Json, IOUtils
Traces == JsonDeserialize(IOEnv.TRACE_FILE)
VARIABLES tid, l
T == Traces[tid]
Ev == T.events[l]
TInit == /\ tid \in 1..Len(Traces) /\ l = 1 /\ par = Traces[tid].par /\ fed = 0 /\ eof = FALSE /\ nextf = 1 /\ active = FALSE
         /\ ngen = 0 /\ closedGens = 0 /\ disconnected = FALSE /\ connClosed = FALSE /\ obs = <<>>
IsEvent(e) == l <= Len(T.events) /\ Ev.ev = e /\ l' = l + 1 /\ UNCHANGED tid
TGenStart == /\ IsEvent("gen_start") /\ ~active /\ ~disconnected /\ ~connClosed /\ active' = TRUE /\ ngen' = ngen + 1
             /\ UNCHANGED <<par, fed, eof, nextf, closedGens, disconnected, connClosed, obs>>
TNext == /\ (InOrderOnce /\ NeverAhead /\ GensClosedOnce) = TRUE
         /\ \/ IsEvent("feed") /\ Feed(Ev.n)
            \/ IsEvent("eof") /\ PeerClose
            \/ TGenStart
            \/ IsEvent("req") /\ Deliver /\ par.kinds[nextf] = "ok" /\ Ev.idx = nextf /\ Ev.ok = TRUE
            \/ IsEvent("err") /\ Deliver /\ par.kinds[nextf] = "bad" /\ Ev.idx = nextf
            \/ IsEvent("timeout") /\ Timeout /\ Ev.d = (IF par.zero THEN 0 ELSE par.tau)
            \/ IsEvent("gen_close") /\ GenClose
            \/ IsEvent("disconnect") /\ Disconnect
            \/ IsEvent("closed") /\ Ev.ok = TRUE /\ ConnClose
            \/ IsEvent("end") /\ ~active /\ connClosed /\ (Ev.ok = TRUE => nextf = N + 1) /\ UNCHANGED vars
ASSUME \A x \in 1..Len(Traces) : TLCSet(x, 0)
Constr == TLCSet(tid, IF TLCGet(tid) > l THEN TLCGet(tid) ELSE l)
Post == LET bad == {x \in 1..Len(Traces) : TLCGet(x) <= Len(Traces[x].events)} IN
        IF bad = {} THEN TRUE ELSE PrintT(<<"REJECTED", [x \in bad |-> TLCGet(x)]>>) /\ FALSE
=============================================================================
