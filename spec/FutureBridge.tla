---------------------------- MODULE FutureBridge ----------------------------
(* lowlevel.futures.unwrap_future(): an asynchronous task waits for a concurrent.futures.Future (AsyncExecutor.run / map).
   Not one of the listed properties: part of the growth of the specification over the rest of the library.

     fut:   "pending" -> "running" -> "result" | "error"          (a worker picks the future up and finishes it)
            "pending" -> "cancelled"                               (Executor.shutdown(cancel_futures=True), or the waiting task)
     task:  "waiting"        suspended on the completion event
            "shielded"       a cancellation arrived while the future was already running: rejected (as documented, that request is
                             dropped), the task keeps waiting with cancellation muted; a FURTHER request that arrives during
                             this muted wait is not lost: it is delivered again after the call has returned
            "yielding"       the future turned out cancelled by somebody else: one checkpoint before reporting it, so that a
                             cancellation of the task itself prevails
            "ret_result" | "ret_error" | "cancelled" (CancelledError of the task) | "fut_cancelled" (concurrent.futures.CancelledError)

   Env actions: Start, Finish(kind), ExtCancel, CancelReq (task.cancel()).  Step is one wake-up of the task.
   Documented contract: the call never returns before the future is done; a cancellation is accepted exactly when the future could
   still be cancelled (then the future IS cancelled and never runs); a running future is always awaited to its end.        *)
EXTENDS Naturals, TLC
CONSTANTS MaxCancels
VARIABLES fut, ev, task, cpend, deferred, ncancel
vars == <<fut, ev, task, cpend, deferred, ncancel>>
Init == fut = "pending" /\ ev = FALSE /\ task = "waiting" /\ cpend = FALSE /\ deferred = FALSE /\ ncancel = 0
Terminal == task \in {"ret_result", "ret_error", "cancelled", "fut_cancelled"}
FutDone == fut \in {"result", "error", "cancelled"}

Start == fut = "pending" /\ fut' = "running" /\ UNCHANGED <<ev, task, cpend, deferred, ncancel>>
Finish(k) == fut = "running" /\ k \in {"result", "error"} /\ fut' = k /\ ev' = TRUE /\ UNCHANGED <<task, cpend, deferred, ncancel>>
ExtCancel == fut = "pending" /\ fut' = "cancelled" /\ ev' = TRUE /\ UNCHANGED <<task, cpend, deferred, ncancel>>
CancelReq == ~Terminal /\ ~cpend /\ ncancel < MaxCancels /\ cpend' = TRUE /\ ncancel' = ncancel + 1 /\ UNCHANGED <<fut, ev, task, deferred>>

Step ==
  /\ ~Terminal
  /\ CASE task = "waiting" /\ cpend ->
            \* CancelledError at the wait: try to cancel the future
            IF fut \in {"pending", "cancelled"}
            THEN fut' = "cancelled" /\ ev' = TRUE /\ task' = "cancelled" /\ cpend' = FALSE /\ UNCHANGED deferred
            ELSE task' = "shielded" /\ cpend' = FALSE /\ UNCHANGED <<fut, ev, deferred>>
       [] task = "waiting" /\ ~cpend /\ ev ->
            /\ task' = (IF fut = "cancelled" THEN "yielding" ELSE IF fut = "result" THEN "ret_result" ELSE "ret_error")
            /\ UNCHANGED <<fut, ev, cpend, deferred>>
       [] task = "shielded" /\ cpend ->
            cpend' = FALSE /\ deferred' = TRUE /\ UNCHANGED <<fut, ev, task>>
       [] task = "shielded" /\ ~cpend /\ ev ->
            task' = (IF fut = "result" THEN "ret_result" ELSE "ret_error") /\ UNCHANGED <<fut, ev, cpend, deferred>>
       [] task = "yielding" ->
            task' = (IF cpend THEN "cancelled" ELSE "fut_cancelled") /\ cpend' = FALSE /\ UNCHANGED <<fut, ev, deferred>>
       [] OTHER -> FALSE
  /\ UNCHANGED ncancel
Next == Start \/ (\E k \in {"result", "error"} : Finish(k)) \/ ExtCancel \/ CancelReq \/ Step
Spec == Init /\ [][Next]_vars /\ WF_vars(Step)

-----------------------------------------------------------------------------
NoEarlyReturn == /\ task = "ret_result" => fut = "result"
                 /\ task = "ret_error" => fut = "error"
                 /\ task = "fut_cancelled" => fut = "cancelled"
\* a cancellation of the task is accepted only together with the cancellation of the future
AcceptedMeansFutureCancelled == task = "cancelled" => fut = "cancelled"
\* a future that runs is never abandoned
RunningIsAwaited == fut = "running" => task \in {"waiting", "shielded"}
\* the first rejected request is dropped (documented); one absorbed during the muted wait is handed back after the call
RejectedIsDeferred == (task \in {"ret_result", "ret_error"} /\ deferred) => ncancel >= 2
Answers == FutDone ~> Terminal
=============================================================================
