----------------------------- MODULE SizeGuard -----------------------------
(* The two size guards that are not separator scanners (C07):

   kind = "file":  FileBasedPacketSerializer.__generic_incremental_deserialize
                   every time bytes are added:  if nbytes(buffer) > limit: LimitOverrunError (everything is dropped)
                                                else try load_from_file: EOFError -> wait for more; success -> packet + remainder
   kind = "json":  _JSONParser.raw_parse (JSONSerializer(use_lines=False))
                   scan the accumulated document; frame end found at `consumed`: if consumed > limit: LimitOverrunError
                   (remainder = what follows the frame) else packet; not found: if nbytes(document) > limit: LimitOverrunError
                   (everything is dropped) else wait for more

   Content-free: the stream is a sequence of frame lengths; `buf` is the number of bytes accumulated by the current
   parse, `left` the number of bytes handed back to the consumer (remainder not yet re-parsed).  One Feed = one
   consumer.next(chunk), one Drain = consumer.next(None).  *)
EXTENDS Naturals, Sequences, TLC

CONSTANTS Params,      \* set of [kind, limit, maxread]
          FrameSets    \* set of sequences of frame lengths to explore

VARIABLES par, frames, fed, buf, left, active, done, out, maxheld
\* fed: bytes given to the consumer so far; done: bytes consumed by delivered/rejected outcomes (absolute offset)
vars == <<par, frames, fed, buf, left, active, done, out, maxheld>>

Limit == par.limit
RECURSIVE SumTo(_, _)
SumTo(s, k) == IF k = 0 THEN 0 ELSE s[k] + SumTo(s, k - 1)
Total == SumTo(frames, Len(frames))
\* end offset of the frame that contains absolute offset `pos` (the first frame not entirely before pos), 0 if none
FrameEndAfter(pos) == LET C == {k \in 1..Len(frames) : SumTo(frames, k) > pos} IN
                      IF C = {} THEN 0 ELSE SumTo(frames, CHOOSE k \in C : \A j \in C : k <= j)
FrameStartOf(pos) == LET C == {k \in 1..Len(frames) : SumTo(frames, k) > pos} IN
                     IF C = {} THEN Total ELSE SumTo(frames, (CHOOSE k \in C : \A j \in C : k <= j) - 1)

Init == /\ par \in Params /\ frames \in FrameSets
        /\ fed = 0 /\ buf = 0 /\ left = 0 /\ active = FALSE /\ done = 0 /\ out = <<>> /\ maxheld = 0

\* one parse attempt on `b` accumulated bytes starting at absolute offset `done`
Parse(b) ==
  LET fend == FrameEndAfter(done)                 \* absolute end of the frame being parsed (0: nothing but garbage/none)
      need == fend - done                         \* bytes needed to complete it
      complete == fend # 0 /\ b >= need
  IN IF par.kind = "file"
     THEN IF b > Limit THEN [k |-> "limit", used |-> b]
          ELSE IF complete THEN [k |-> "pkt", used |-> need] ELSE [k |-> "more", used |-> 0]
     ELSE IF complete
          THEN IF need > Limit THEN [k |-> "limit", used |-> need] ELSE [k |-> "pkt", used |-> need]
          ELSE IF b > Limit THEN [k |-> "limit", used |-> b] ELSE [k |-> "more", used |-> 0]

Apply(b) ==
  LET r == Parse(b) IN
  /\ maxheld' = IF b > maxheld THEN b ELSE maxheld
  /\ IF r.k = "more"
     THEN /\ active' = TRUE /\ buf' = b /\ left' = 0 /\ UNCHANGED <<done, out>>
     ELSE /\ active' = FALSE /\ buf' = 0 /\ left' = b - r.used /\ done' = done + r.used
          /\ out' = Append(out, [k |-> r.k, at |-> done, used |-> r.used])

Feed(n) == /\ n \in 1..par.maxread /\ fed + n <= Total
           /\ fed' = fed + n
           /\ Apply((IF active THEN buf ELSE left) + n)
           /\ UNCHANGED <<par, frames>>
Drain == /\ ~active /\ left > 0
         /\ Apply(left)
         /\ UNCHANGED <<par, frames, fed>>
Next == (\E n \in 1..par.maxread : Feed(n)) \/ Drain
Spec == Init /\ [][Next]_vars

-----------------------------------------------------------------------------
Held == IF active THEN buf ELSE left
\* C07, first sentence: never more than the limit plus one read is held
Bound == maxheld <= Limit + par.maxread
\* a frame delivered as a packet starts at a frame boundary and is exactly that frame (while no rejection desynchronised the stream)
NoRejection == \A i \in 1..Len(out) : out[i].k = "pkt"
PktAligned == NoRejection => \A i \in 1..Len(out) : FrameStartOf(out[i].at) = out[i].at /\ out[i].at + out[i].used = FrameEndAfter(out[i].at)
\* C07, converse: a frame safely under the limit is never rejected for its size.  "Safely" = the frame plus what one
\* read can add while it is still incomplete fits (file-based guard); the frame itself fits (raw JSON guard).
SafeFrame(f) == IF par.kind = "file" THEN f - 1 + par.maxread <= Limit ELSE f <= Limit
AllSafe == \A k \in 1..Len(frames) : SafeFrame(frames[k])
SafeNeverRejected == AllSafe => NoRejection
\* an oversized frame is always rejected (as soon as enough of it has been fed)
Oversized(f) == f > Limit + par.maxread
OversizedRejected == (fed = Total /\ ~active /\ left = 0 /\ Len(frames) = 1 /\ Oversized(frames[1])) => (\E i \in 1..Len(out) : out[i].k = "limit")
NeverDeliversOversized == \A i \in 1..Len(out) : out[i].k = "pkt" => out[i].used <= Limit
\* once everything is fed and parsed, safe streams are fully delivered
Quiescent == fed = Total /\ ~active /\ left = 0
SafeComplete == (AllSafe /\ Quiescent) => Len(out) = Len(frames)
=============================================================================
