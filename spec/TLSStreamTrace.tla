--------------------------- MODULE TLSStreamTrace ---------------------------
(* The stream law of a TLS-wrapped transport, checked on recorded sessions (library transport on one side, an independent
   ssl.SSLObject peer on the other).   events [ev, d, n, ok]:
     "write" d n    : n plaintext bytes written in direction d ("out": library -> peer, "in": peer -> library)
     "read"  d n ok : n plaintext bytes read at the other end of direction d; ok = they equal the bytes written at that offset
     "wire" ok      : the ciphertext handed to the wrapped transport so far parses as TLS records and contains no plaintext token
     "end"          : both directions drained, handshake and close completed
   a deadlock / timeout / exception of the harness is an event without action.                                           *)
EXTENDS Naturals, Sequences, TLC, Json, IOUtils
Traces == JsonDeserialize(IOEnv.TRACE_FILE)
VARIABLES tid, l, written, read
T == Traces[tid]
Ev == T.events[l]
Dirs == {"out", "in"}
TInit == tid \in 1..Len(Traces) /\ l = 1 /\ written = [d \in Dirs |-> 0] /\ read = [d \in Dirs |-> 0]
IsEvent(e) == l <= Len(T.events) /\ Ev.ev = e /\ l' = l + 1 /\ UNCHANGED tid
TWrite == IsEvent("write") /\ Ev.d \in Dirs /\ written' = [written EXCEPT ![Ev.d] = @ + Ev.n] /\ UNCHANGED read
TRead == IsEvent("read") /\ Ev.d \in Dirs /\ Ev.ok = TRUE /\ read[Ev.d] + Ev.n <= written[Ev.d]
         /\ read' = [read EXCEPT ![Ev.d] = @ + Ev.n] /\ UNCHANGED written
TWire == IsEvent("wire") /\ Ev.ok = TRUE /\ UNCHANGED <<written, read>>
TEnd == IsEvent("end") /\ (\A d \in Dirs : read[d] = written[d]) /\ UNCHANGED <<written, read>>
TNext == TWrite \/ TRead \/ TWire \/ TEnd
ASSUME \A x \in 1..Len(Traces) : TLCSet(x, 0)
Constr == TLCSet(tid, IF TLCGet(tid) > l THEN TLCGet(tid) ELSE l)
Post == LET bad == {x \in 1..Len(Traces) : TLCGet(x) <= Len(Traces[x].events)} IN
        IF bad = {} THEN TRUE ELSE PrintT(<<"REJECTED", [x \in bad |-> TLCGet(x)]>>) /\ FALSE
=============================================================================
