------------------------- MODULE ThreadsPortalTrace -------------------------
(* Laws of ThreadsPortal.tla over a recorded execution with real threads (events appended to one list under a harness lock; each
   event is logged by the thread that performs the step, so "logged before" implies "happened before" only for steps of the same
   thread and across the synchronisation points used below).   events [ev, w, kind]:
     "call_begin" w            the worker is about to call run_sync_soon / run_coroutine_soon
     "accepted" w | "refused" w  the call returned a future | raised RuntimeError("ThreadsPortal not running.")
     "executed" w              the function / coroutine function body runs (logged in the loop thread)
     "cancel" w                the worker cancels its future
     "future" w kind           what .result(timeout) gave: "result" | "error" | "cancelled" | "pending" (still nothing after the timeout)
     "exit_begin" / "exit_end"  the loop thread is about to leave / has left the portal (kind = "error" when it leaves with an exception)
     "end"                                                                                                                *)
EXTENDS Naturals, Sequences, FiniteSets, TLC, Json, IOUtils
Traces == JsonDeserialize(IOEnv.TRACE_FILE)
VARIABLES tid, l, begun, lateBegun, outcome, ran, futs, cancelReq, exitBegun, exitEnded, exitError
vars == <<begun, lateBegun, outcome, ran, futs, cancelReq, exitBegun, exitEnded, exitError>>
T == Traces[tid]
Ev == T.events[l]
TInit == /\ tid \in 1..Len(Traces) /\ l = 1 /\ begun = {} /\ lateBegun = {} /\ outcome = <<>> /\ ran = {} /\ futs = <<>>
         /\ cancelReq = {} /\ exitBegun = FALSE /\ exitEnded = FALSE /\ exitError = FALSE
IsEvent(e) == l <= Len(T.events) /\ Ev.ev = e /\ l' = l + 1 /\ UNCHANGED tid
Put(f, k, v) == [x \in DOMAIN f \cup {k} |-> IF x = k THEN v ELSE f[x]]
CallBegin == /\ IsEvent("call_begin") /\ Ev.w \notin begun /\ begun' = begun \cup {Ev.w}
             /\ lateBegun' = (IF exitEnded THEN lateBegun \cup {Ev.w} ELSE lateBegun)
             /\ UNCHANGED <<outcome, ran, futs, cancelReq, exitBegun, exitEnded, exitError>>
\* a call issued after the portal was left cannot be accepted; a refusal needs the exit to have begun
Accepted == /\ IsEvent("accepted") /\ Ev.w \in begun /\ Ev.w \notin DOMAIN outcome /\ Ev.w \notin lateBegun
            /\ outcome' = Put(outcome, Ev.w, "accepted") /\ UNCHANGED <<begun, lateBegun, ran, futs, cancelReq, exitBegun, exitEnded, exitError>>
Refused == /\ IsEvent("refused") /\ Ev.w \in begun /\ Ev.w \notin DOMAIN outcome /\ exitBegun /\ Ev.w \notin ran
           /\ outcome' = Put(outcome, Ev.w, "refused") /\ UNCHANGED <<begun, lateBegun, ran, futs, cancelReq, exitBegun, exitEnded, exitError>>
\* the function runs at most once, in the loop thread, while the portal has not been left
Executed == /\ IsEvent("executed") /\ Ev.w \in begun /\ Ev.w \notin ran /\ ~exitEnded
            /\ (Ev.w \in DOMAIN outcome => outcome[Ev.w] = "accepted")
            /\ ran' = ran \cup {Ev.w} /\ UNCHANGED <<begun, lateBegun, outcome, futs, cancelReq, exitBegun, exitEnded, exitError>>
Cancel == /\ IsEvent("cancel") /\ cancelReq' = cancelReq \cup {Ev.w}
          /\ UNCHANGED <<begun, lateBegun, outcome, ran, futs, exitBegun, exitEnded, exitError>>
\* a future never stays pending; a plain result needs the function to have run; a cancellation needs a cause
Future == /\ IsEvent("future") /\ Ev.w \in DOMAIN outcome /\ outcome[Ev.w] = "accepted" /\ Ev.w \notin DOMAIN futs
          /\ Ev.kind \in {"result", "error", "cancelled"}
          /\ (Ev.kind \in {"result", "error"} => Ev.w \in ran)
          /\ (Ev.kind = "cancelled" => (Ev.w \in cancelReq \/ exitError))
          /\ futs' = Put(futs, Ev.w, Ev.kind) /\ UNCHANGED <<begun, lateBegun, outcome, ran, cancelReq, exitBegun, exitEnded, exitError>>
ExitBegin == /\ IsEvent("exit_begin") /\ ~exitBegun /\ exitBegun' = TRUE /\ exitError' = (Ev.kind = "error")
             /\ UNCHANGED <<begun, lateBegun, outcome, ran, futs, cancelReq, exitEnded>>
ExitEnd == /\ IsEvent("exit_end") /\ exitBegun /\ ~exitEnded /\ exitEnded' = TRUE
           /\ UNCHANGED <<begun, lateBegun, outcome, ran, futs, cancelReq, exitBegun, exitError>>
\* at rest: every call was refused or accepted; every accepted call has a settled future; an accepted call that was not cancelled
\* (and whose portal was left normally) has run
End == /\ IsEvent("end") /\ exitEnded /\ begun = DOMAIN outcome
       /\ \A w \in begun : outcome[w] = "accepted" => (w \in DOMAIN futs /\ (w \in ran \/ w \in cancelReq \/ exitError))
       /\ UNCHANGED vars
TNext == CallBegin \/ Accepted \/ Refused \/ Executed \/ Cancel \/ Future \/ ExitBegin \/ ExitEnd \/ End
ASSUME \A x \in 1..Len(Traces) : TLCSet(x, 0)
Constr == TLCSet(tid, IF TLCGet(tid) > l THEN TLCGet(tid) ELSE l)
Post == LET bad == {x \in 1..Len(Traces) : TLCGet(x) <= Len(Traces[x].events)} IN
        IF bad = {} THEN TRUE ELSE PrintT(<<"REJECTED", [x \in bad |-> TLCGet(x)]>>) /\ FALSE
=============================================================================
