-------------------------- MODULE ParseTotalTrace --------------------------
(* trace events [ev, n, k, r]:  "feed" n k r  (k in "more" | "pkt" | "err"; r = bytes remaining, -1 when not observable)
                                "oneshot" n k (k in "pkt" | "err")                                                      *)
EXTENDS ParseTotal, Json, IOUtils, Integers, Sequences
Traces == JsonDeserialize(IOEnv.TRACE_FILE)
VARIABLES tid, l
T == Traces[tid]
Ev == T.events[l]
TInit == tid \in 1..Len(Traces) /\ l = 1 /\ held = 0 /\ fed = 0 /\ errs = 0
IsEvent(e) == l <= Len(T.events) /\ Ev.ev = e /\ l' = l + 1 /\ UNCHANGED tid
TFeedMore == IsEvent("feed") /\ Ev.k = "more" /\ held + Ev.n > 0 /\ held' = held + Ev.n /\ fed' = fed + Ev.n /\ UNCHANGED errs
TFeedOut == /\ IsEvent("feed") /\ Ev.k \in {"pkt", "err"}
            /\ IF Ev.r >= 0 THEN Ev.r < held + Ev.n /\ held' = Ev.r
               ELSE held' = held + Ev.n                 \* remainder not observable on this path: held becomes an upper bound, only the outcome alphabet is checked
            /\ fed' = fed + Ev.n /\ errs' = (IF Ev.k = "err" THEN errs + 1 ELSE errs)
TOneShot == IsEvent("oneshot") /\ Ev.k \in {"pkt", "err"} /\ UNCHANGED <<held, fed, errs>>
TNext == ((errs <= fed /\ held <= fed) = TRUE) /\ (TFeedMore \/ TFeedOut \/ TOneShot)
ASSUME \A x \in 1..Len(Traces) : TLCSet(x, 0)
Constr == TLCSet(tid, IF TLCGet(tid) > l THEN TLCGet(tid) ELSE l)
Post == LET bad == {x \in 1..Len(Traces) : TLCGet(x) <= Len(Traces[x].events)} IN
        IF bad = {} THEN TRUE ELSE PrintT(<<"REJECTED", [x \in bad |-> TLCGet(x)]>>) /\ FALSE
=============================================================================
