---------------------------- MODULE TLSTruncation ----------------------------
(* C09: what a reader behind a TLS transport may observe when the ciphertext stream towards it is cut after `cut` of its
   `total` bytes (the stream is: handshake flights, application data carrying `plain` plaintext bytes, close_notify as the
   very last record; cut = total is the orderly end).
     wrap fails (the handshake could not complete)  |  wrap succeeds, then  data* followed by exactly one of
     "eof"   clean end-of-stream: only after the complete close_notify, or in non-standard mode
     "error" the truncation is reported
   In standard-compatible mode a cut stream never ends with "eof"; the complete stream ends with "eof" after all data.   *)
EXTENDS Naturals, TLC
CONSTANTS Params      \* set of [total, cut, plain, standard]
VARIABLES par, phase, got, ending
vars == <<par, phase, got, ending>>
Init == par \in Params /\ phase = "hs" /\ got = 0 /\ ending = "none"
WrapError == phase = "hs" /\ par.cut < par.total /\ phase' = "ended" /\ ending' = "wrap_error" /\ UNCHANGED <<par, got>>
WrapOk == phase = "hs" /\ phase' = "open" /\ UNCHANGED <<par, got, ending>>
Data(n) == phase = "open" /\ n >= 1 /\ got + n <= par.plain /\ got' = got + n /\ UNCHANGED <<par, phase, ending>>
Eof == /\ phase = "open" /\ (~par.standard \/ par.cut = par.total) /\ (par.cut = par.total => got = par.plain)
       /\ phase' = "ended" /\ ending' = "eof" /\ UNCHANGED <<par, got>>
Error == /\ phase = "open" /\ par.standard /\ par.cut < par.total
         /\ phase' = "ended" /\ ending' = "error" /\ UNCHANGED <<par, got>>
(* what the packet-level receive tells its caller once the stream has ended, as often as it is asked: the first answer lasts.
   An ended stream that was reported as an error is never turned into a clean end-of-stream by asking again (nor the reverse).     *)
CallerEof == phase = "ended" /\ ending = "eof" /\ UNCHANGED vars
CallerError == phase = "ended" /\ ending = "error" /\ UNCHANGED vars
Next == WrapError \/ WrapOk \/ (\E n \in 1..par.plain : Data(n)) \/ Eof \/ Error \/ (phase = "ended" /\ UNCHANGED vars)
Spec == Init /\ [][Next]_vars
CleanEofOnlyAfterCloseNotify == (ending = "eof" /\ par.standard) => par.cut = par.total
TruncationIsReported == (phase = "ended" /\ par.standard /\ par.cut < par.total) => ending \in {"error", "wrap_error"}
NothingInvented == got <= par.plain
=============================================================================
