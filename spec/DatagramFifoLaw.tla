--------------------------- MODULE DatagramFifoLaw ---------------------------
(* C16 as a deterministic law over the log of ONE client address, for logs that are too long for DatagramServerTrace (whose unlogged
   scheduling steps TLC has to interleave): bursts of hundreds of datagrams.
   events [ev, id]:  "arrive" id | "gen_start" | "gen_got" id | "gen_end" | "end"
   Laws: datagrams are numbered in arrival order; they are handed to the handler exactly once and in that order, never before they
   arrived; at most one handler generator is active at a time; at the end every datagram that arrived has been handled and no
   generator is left active.                                                                                              *)
EXTENDS Naturals, Sequences, TLC, Json, IOUtils
Traces == JsonDeserialize(IOEnv.TRACE_FILE)
VARIABLES tid, l, arrived, got, active
vars == <<arrived, got, active>>
T == Traces[tid]
Ev == T.events[l]
TInit == tid \in 1..Len(Traces) /\ l = 1 /\ arrived = 0 /\ got = 0 /\ active = FALSE
IsEvent(e) == l <= Len(T.events) /\ Ev.ev = e /\ l' = l + 1 /\ UNCHANGED tid
Arrive == IsEvent("arrive") /\ Ev.id = arrived + 1 /\ arrived' = arrived + 1 /\ UNCHANGED <<got, active>>
GenStart == IsEvent("gen_start") /\ ~active /\ got < arrived /\ active' = TRUE /\ UNCHANGED <<arrived, got>>
GenGot == IsEvent("gen_got") /\ active /\ Ev.id = got + 1 /\ got + 1 <= arrived /\ got' = got + 1 /\ UNCHANGED <<arrived, active>>
GenEnd == IsEvent("gen_end") /\ active /\ active' = FALSE /\ UNCHANGED <<arrived, got>>
End == IsEvent("end") /\ ~active /\ got = arrived /\ UNCHANGED vars
TNext == Arrive \/ GenStart \/ GenGot \/ GenEnd \/ End
ASSUME \A x \in 1..Len(Traces) : TLCSet(x, 0)
Constr == TLCSet(tid, IF TLCGet(tid) > l THEN TLCGet(tid) ELSE l)
Post == LET bad == {x \in 1..Len(Traces) : TLCGet(x) <= Len(Traces[x].events)} IN
        IF bad = {} THEN TRUE ELSE PrintT(<<"REJECTED", [x \in bad |-> TLCGet(x)]>>) /\ FALSE
=============================================================================
