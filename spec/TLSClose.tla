------------------------------ MODULE TLSClose ------------------------------
(* C09, the writer's half: "closing the transport sends [a close notification]".
   One TLS connection; the library side closes it in some situation (par.variant):
     "first"      nothing else is going on                      "reader"   another task of the library side is parked in recv()
     "peer_first" the peer already sent its close notification and the library side read the clean end-of-stream
     "unread"     application data of the peer is still unread in the TLS layer when close is called
     "silent"     the peer never answers the close notification (the close ends by its shutdown timeout)
   What the peer then observes on its own reading side is "clean" (it received the library's close notification) or "truncated"
   (the underlying stream ended without it).  In standard-compatible mode it must be "clean" in every situation; in the other mode
   the library does not perform the closing handshake and either observation is allowed.                                  *)
EXTENDS Naturals, TLC
CONSTANTS Params     \* set of [standard, variant]
VARIABLES par, phase, peerSaw
vars == <<par, phase, peerSaw>>
Init == par \in Params /\ phase = "open" /\ peerSaw = "none"
LibClose == phase = "open" /\ phase' = "closed" /\ UNCHANGED <<par, peerSaw>>
PeerObserves(k) == /\ phase = "closed" /\ peerSaw = "none" /\ k \in {"clean", "truncated"}
                   /\ (par.standard => k = "clean")
                   /\ peerSaw' = k /\ UNCHANGED <<par, phase>>
Next == LibClose \/ (\E k \in {"clean", "truncated"} : PeerObserves(k)) \/ (peerSaw # "none" /\ UNCHANGED vars)
Spec == Init /\ [][Next]_vars
CloseSendsNotify == (par.standard /\ peerSaw # "none") => peerSaw = "clean"
NothingBeforeClose == phase = "open" => peerSaw = "none"
=============================================================================
