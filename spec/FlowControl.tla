---------------------------- MODULE FlowControl ----------------------------
(* easynetwork.lowlevel.api_async.backend._asyncio._flow_control.WriteFlowControl, action by action, together with
   asyncio's future/callback discipline: completing a future *schedules* its done-callbacks (here: remove the waiter
   from the deque, then wake the awaiting task); they run later, so other callbacks (pause/resume/connection_lost,
   another drain, a cancellation) may be interleaved in between.

   drain():  if transport.is_closing(): await coro_yield()
             if connection_lost: raise
             if not write_paused: return
             waiter = create_future(); waiters.append(waiter); waiter.add_done_callback(waiters.remove); await waiter   *)
EXTENDS Naturals, Sequences, FiniteSets, TLC

CONSTANTS Senders, MaxEnv, MaxCancel     \* bounds: environment notifications, cancellations

VARIABLES paused, lost,      \* lost \in {"no", "clean", "exc"}
          closing,           \* transport.is_closing()
          waiters,           \* deque of sender ids (their futures), including futures already done but whose callback did not run yet
          fut,               \* per sender: "none" | "pending" | "result" | "exception" | "cancelled"
          pc,                \* per sender: "idle" | "yield" | "parked" | "ok" | "err" | "cancelled"
          mustc,             \* senders whose task has a cancellation pending (delivered at the next step)
          sawFlush,          \* per sender: the write buffer was seen not-paused between the call and now
          nenv, ncancel
vars == <<paused, lost, closing, waiters, fut, pc, mustc, sawFlush, nenv, ncancel>>

Init == /\ paused = FALSE /\ lost = "no" /\ closing = FALSE /\ waiters = <<>>
        /\ fut = [s \in Senders |-> "none"] /\ pc = [s \in Senders |-> "idle"] /\ mustc = {}
        /\ sawFlush = [s \in Senders |-> FALSE] /\ nenv = 0 /\ ncancel = 0

\* body of drain() after the optional yield
Body(s) ==
  IF lost # "no" THEN /\ pc' = [pc EXCEPT ![s] = "err"] /\ UNCHANGED <<waiters, fut, sawFlush>>
  ELSE IF ~paused THEN /\ pc' = [pc EXCEPT ![s] = "ok"] /\ sawFlush' = [sawFlush EXCEPT ![s] = TRUE] /\ UNCHANGED <<waiters, fut>>
  ELSE /\ pc' = [pc EXCEPT ![s] = "parked"] /\ waiters' = Append(waiters, s) /\ fut' = [fut EXCEPT ![s] = "pending"]
       /\ UNCHANGED sawFlush

\* first step of a task running drain()
Drain(s) ==
  /\ pc[s] = "idle"
  /\ IF closing THEN pc' = [pc EXCEPT ![s] = "yield"] /\ UNCHANGED <<waiters, fut, sawFlush>> ELSE Body(s)
  /\ UNCHANGED <<paused, lost, closing, mustc, nenv, ncancel>>

\* the task resumes after coro_yield()
Yielded(s) ==
  /\ pc[s] = "yield"
  /\ IF s \in mustc THEN pc' = [pc EXCEPT ![s] = "cancelled"] /\ mustc' = mustc \ {s} /\ UNCHANGED <<waiters, fut, sawFlush>>
     ELSE Body(s) /\ UNCHANGED mustc
  /\ UNCHANGED <<paused, lost, closing, nenv, ncancel>>

Pause == /\ nenv < MaxEnv /\ lost = "no" /\ ~paused /\ paused' = TRUE /\ nenv' = nenv + 1
         /\ UNCHANGED <<lost, closing, waiters, fut, pc, mustc, sawFlush, ncancel>>

Resume == /\ nenv < MaxEnv /\ lost = "no" /\ paused /\ paused' = FALSE /\ nenv' = nenv + 1
          /\ fut' = [s \in Senders |-> IF fut[s] = "pending" THEN "result" ELSE fut[s]]
          /\ sawFlush' = [s \in Senders |-> IF fut[s] = "pending" THEN TRUE ELSE sawFlush[s]]
          /\ UNCHANGED <<lost, closing, waiters, pc, mustc, ncancel>>

ConnLost(kind) ==
  /\ nenv < MaxEnv /\ nenv' = nenv + 1
  /\ IF lost # "no" THEN UNCHANGED <<paused, lost, fut>>
     ELSE /\ paused' = FALSE /\ lost' = kind
          /\ fut' = [s \in Senders |-> IF fut[s] = "pending" THEN "exception" ELSE fut[s]]
  /\ closing' = TRUE       \* asyncio: a lost connection's transport reports is_closing()
  /\ UNCHANGED <<waiters, pc, mustc, sawFlush, ncancel>>

Close == /\ nenv < MaxEnv /\ ~closing /\ closing' = TRUE /\ nenv' = nenv + 1
         /\ UNCHANGED <<paused, lost, waiters, fut, pc, mustc, sawFlush, ncancel>>

\* task.cancel() on a sender suspended in drain()
Cancel(s) ==
  /\ ncancel < MaxCancel /\ ncancel' = ncancel + 1 /\ s \notin mustc
  /\ \/ /\ pc[s] = "parked" /\ fut[s] = "pending" /\ fut' = [fut EXCEPT ![s] = "cancelled"] /\ UNCHANGED mustc
     \/ /\ pc[s] = "parked" /\ fut[s] # "pending" /\ mustc' = mustc \cup {s} /\ UNCHANGED fut
     \/ /\ pc[s] = "yield" /\ mustc' = mustc \cup {s} /\ UNCHANGED fut
  /\ UNCHANGED <<paused, lost, closing, waiters, pc, sawFlush, nenv>>

\* the done-callbacks of s's future run: waiters.remove(fut), then the task is resumed
Wake(s) ==
  /\ pc[s] = "parked" /\ fut[s] \in {"result", "exception", "cancelled"}
  /\ waiters' = SelectSeq(waiters, LAMBDA x : x # s)
  /\ pc' = [pc EXCEPT ![s] = IF s \in mustc \/ fut[s] = "cancelled" THEN "cancelled"
                               ELSE IF fut[s] = "result" THEN "ok" ELSE "err"]
  /\ fut' = [fut EXCEPT ![s] = "none"] /\ mustc' = mustc \ {s}
  /\ UNCHANGED <<paused, lost, closing, sawFlush, nenv, ncancel>>

\* a finished sender starts over (new write + drain)
Again(s) == /\ pc[s] \in {"ok", "cancelled"} /\ pc' = [pc EXCEPT ![s] = "idle"] /\ sawFlush' = [sawFlush EXCEPT ![s] = FALSE]
            /\ UNCHANGED <<paused, lost, closing, waiters, fut, mustc, nenv, ncancel>>

Next == \/ \E s \in Senders : Drain(s) \/ Yielded(s) \/ Cancel(s) \/ Wake(s) \/ Again(s)
        \/ Pause \/ Resume \/ Close \/ ConnLost("clean") \/ ConnLost("exc")
Spec == Init /\ [][Next]_vars /\ \A s \in Senders : WF_vars(Wake(s)) /\ WF_vars(Yielded(s))

-----------------------------------------------------------------------------
TypeOK == /\ paused \in BOOLEAN /\ lost \in {"no", "clean", "exc"}
          /\ \A s \in Senders : fut[s] \in {"none", "pending", "result", "exception", "cancelled"}
\* drain() returns normally only if the write buffer was flushed (not paused) at some point since the call
ReturnMeansFlushed == \A s \in Senders : pc[s] = "ok" => sawFlush[s]
\* a parked sender is always registered: a resume / loss notification will find it
ParkedRegistered == \A s \in Senders : pc[s] = "parked" => \E i \in 1..Len(waiters) : waiters[i] = s
\* nobody stays parked on a pending future while writing is not paused or the connection is gone (no lost wake-up)
NoStrandedWaiter == \A s \in Senders : (pc[s] = "parked" /\ fut[s] = "pending") => (paused /\ lost = "no")
\* after a loss nothing is paused and no new sender parks
LostMeansUnpaused == lost # "no" => ~paused
\* cancelling one sender never changes another sender's future
CancelIsolated == [][Cardinality({s \in Senders : fut[s] # "cancelled" /\ fut'[s] = "cancelled"}) <= 1]_vars
\* every parked sender eventually leaves drain() once its future is completed
WaiterLive == \A s \in Senders : (pc[s] = "parked" /\ fut[s] # "pending") ~> (pc[s] # "parked")
=============================================================================
