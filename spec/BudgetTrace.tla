---------------------------- MODULE BudgetTrace ----------------------------
(* trace = [t |-> T, events |-> << [ev, e, kind] >>]:  "wait" e | "deliver" | "ret" kind *)
EXTENDS Budget, Json, IOUtils
Traces == JsonDeserialize(IOEnv.TRACE_FILE)
VARIABLES tid, l
T == Traces[tid]
Ev == T.events[l]
TInit == tid \in 1..Len(Traces) /\ l = 1 /\ t = Traces[tid].t /\ waited = 0 /\ st = "running"
IsEvent(e) == l <= Len(T.events) /\ Ev.ev = e /\ l' = l + 1 /\ UNCHANGED tid
TNext == /\ (WithinBudget /\ ZeroNeverWaits) = TRUE
         /\ \/ IsEvent("wait") /\ Wait(Ev.e)
            \/ IsEvent("deliver") /\ Deliver
            \/ IsEvent("ret") /\ Return(Ev.kind)
ASSUME \A x \in 1..Len(Traces) : TLCSet(x, 0)
Constr == TLCSet(tid, IF TLCGet(tid) > l THEN TLCGet(tid) ELSE l)
Post == LET bad == {x \in 1..Len(Traces) : TLCGet(x) <= Len(Traces[x].events)} IN
        IF bad = {} THEN TRUE ELSE PrintT(<<"REJECTED", [x \in bad |-> TLCGet(x)]>>) /\ FALSE
=============================================================================
