----------------------------- MODULE AcceptLoop -----------------------------
(* The accept loop of a stream listener (ListenerSocketAdapter.serve / raw_accept) and the per-connection set-up task.

     accept loop:   Accept(ok)            accept() hands out a connected socket: a set-up task is started for it
                    Accept(ignorable)     ECONNABORTED, EPERM ...: the connection vanished before accept; try again at once
                    Accept(capacity)      EMFILE, ENFILE, ENOBUFS, ENOMEM: go to sleep for a while, then try again
                    Accept(fatal)         any other OSError: serve() ends with it
                    Wake                  the capacity sleep is over
     set-up task:   SetupStart(s)         the task created for the accepted socket runs its first step
                    SetupOk(s)            the stream object is built (the socket now belongs to it) and a handler task is created for it
                    SetupFail(s)          building it failed (peer already gone, TLS wrapper refused, ...): the socket is closed
     listener:      Close                 aclose(): the listening socket is closed, the pending accept / sleep is abandoned,
                                          serve() ends; set-up tasks still running are cancelled and close their socket
   Once serve() has ended (Close or a fatal error) the task group is torn down: every set-up task still running is cancelled.
   A set-up task that was created but had not run its first step yet is cancelled without ever running: nothing closes its socket
   explicitly, the socket object is simply dropped and the interpreter's finalizer closes the descriptor ("dropped"; as written, with a
   ResourceWarning - an observation about the code, kept distinct from "closed" so that it cannot hide a missing close elsewhere).

   Properties: every socket handed out by accept() ends up either owned by a handler's stream or closed - never neither (leak), never
   both; nothing is accepted after the listener was closed or after serve() ended; a capacity error costs a sleep, not the listener. *)
EXTENDS Naturals, Sequences, FiniteSets, TLC

CONSTANTS Script,        \* set of sequences over {"ok", "ignorable", "capacity", "fatal"}: what accept() returns, call by call
          SetupOutcomes  \* subset of {"ok", "fail"}: how a connection's set-up may end if it is not cancelled first
VARIABLES script, pos, loop, socks, closed, naccepts
vars == <<script, pos, loop, socks, closed, naccepts>>
\* loop: "accepting" | "sleeping" | "stopping_closed" | "stopping_error" | "ended_closed" | "ended_error";  socks: function id -> "queued" | "setup" | "handed" | "closed" | "dropped"

Ids == DOMAIN socks
Init == /\ script \in Script /\ pos = 1 /\ loop = "accepting" /\ socks = <<>> /\ closed = FALSE /\ naccepts = 0

\* stopping: aclose() was called or accept() failed for good; serve() is unwinding (its task group cancels what is still running)
Stopping == loop \in {"stopping_closed", "stopping_error"}
Ended == loop \in {"ended_closed", "ended_error"}
Unsettled(s) == socks[s] \in {"queued", "setup"}

AcceptBody == /\ ~closed /\ ~Stopping /\ ~Ended /\ pos <= Len(script)
          /\ pos' = pos + 1 /\ naccepts' = naccepts + 1
          /\ LET r == script[pos] IN
             /\ socks' = IF r = "ok" THEN Append(socks, "queued") ELSE socks
             /\ loop' = CASE r = "capacity" -> "sleeping" [] r = "fatal" -> "stopping_error" [] OTHER -> "accepting"
          /\ UNCHANGED <<script, closed>>
Accept == loop = "accepting" /\ AcceptBody
Wake == loop = "sleeping" /\ loop' = "accepting" /\ UNCHANGED <<script, pos, socks, closed, naccepts>>
Close == /\ ~closed /\ closed' = TRUE
         /\ loop' = IF loop \in {"accepting", "sleeping"} THEN "stopping_closed" ELSE loop
         /\ UNCHANGED <<script, pos, socks, naccepts>>
\* serve() returns (raises) only when its task group has nothing left: every set-up task has finished one way or another
ServeEnds == /\ Stopping /\ \A s \in Ids : ~Unsettled(s)
             /\ loop' = IF loop = "stopping_closed" THEN "ended_closed" ELSE "ended_error"
             /\ UNCHANGED <<script, pos, socks, closed, naccepts>>

Settle(s, from, to) == /\ s \in Ids /\ socks[s] = from /\ socks' = [socks EXCEPT ![s] = to] /\ UNCHANGED <<script, pos, loop, closed, naccepts>>
SetupStart(s) == ~Ended /\ Settle(s, "queued", "setup")
SetupOk(s) == ~Ended /\ "ok" \in SetupOutcomes /\ Settle(s, "setup", "handed")
SetupFail(s) == ~Ended /\ "fail" \in SetupOutcomes /\ Settle(s, "setup", "closed")
\* tear-down: a set-up task still running is cancelled and closes its socket; one that never ran is dropped with its socket
SetupCancelled(s) == Stopping /\ Settle(s, "setup", "closed")
SetupDropped(s) == Stopping /\ Settle(s, "queued", "dropped")

Next == Accept \/ Wake \/ Close \/ ServeEnds \/ (\E s \in Ids : SetupStart(s) \/ SetupDropped(s) \/ SetupOk(s) \/ SetupFail(s) \/ SetupCancelled(s))
Spec == Init /\ [][Next]_vars /\ WF_vars(ServeEnds) /\ WF_vars(\E s \in Ids : SetupCancelled(s) \/ SetupDropped(s))

-----------------------------------------------------------------------------
\* when serve() has ended no socket is left in limbo
NoLeak == Ended => \A s \in Ids : socks[s] \in {"handed", "closed", "dropped"}
NothingAfterEnd == [][(Ended \/ Stopping \/ closed) => naccepts' = naccepts]_vars
CapacityErrorIsSurvived == [][(loop = "accepting" /\ pos <= Len(script) /\ script[pos] = "capacity" /\ naccepts' # naccepts) => loop' = "sleeping"]_vars
StoppingEnds == Stopping ~> Ended
=============================================================================
