---------------------------- MODULE DatagramFlow ----------------------------
(* C20 for the asyncio DATAGRAM adapters (DatagramEndpoint + DatagramEndpointProtocol, DatagramListenerSocketAdapter +
   DatagramListenerProtocol): a send is `transport.sendto(...)` followed by the write flow control's drain(); the adapter's
   aclose() is `transport.close()` followed by a shielded wait for connection_lost().  FlowControl.tla is the flow control
   object alone; this module is the adapter around it together with the event loop's FIFO of ready callbacks, because what
   the seeded changes of round 3 broke lives in the order of those callbacks: a send started in the very iteration in which
   the transport is closed or fails (drain() yields once so that the loss notification lands first), senders parked while
   aclose() waits for the buffer to flush (they must be resumed by resume_writing() although the transport is closing),
   an aclose() that is cancelled (nothing may change for the senders).

   Environment (what the harness does, synchronously, possibly several in one loop iteration):
     Send(s)      a task calling send is created            Close        a task calling aclose() is created
     Pause/Resume the transport's notifications             CancelClose  that task is cancelled while it waits
     Fatal        a fatal error on the socket: the transport is closing at once, connection_lost(exc) is scheduled
     Flushed      a closing transport got rid of its buffer: connection_lost(None) is scheduled
     Cancel(s)    task.cancel() on a sender that is suspended
   Internal: Run - the loop runs the callback at the head of `ready`.                                                      *)
EXTENDS Naturals, Sequences, FiniteSets, TLC
CONSTANTS Senders, MaxEnv, MaxCancel
VARIABLES paused, lost,      \* lost \in {"no", "clean", "exc"}: connection_lost() has been delivered
          lostSched,         \* connection_lost() is scheduled or delivered
          closing,           \* transport.is_closing()
          waiters, fut, pc,  \* as in FlowControl.tla; pc also has "starting" (task created, first step not run yet)
          mustc, closer,     \* closer: "none" | "starting" | "waiting" | "cancelling" | "cancelled" | "done"
          ready,             \* the loop's ready queue: <<kind, arg>>
          nenv, ncancel
vars == <<paused, lost, lostSched, closing, waiters, fut, pc, mustc, closer, ready, nenv, ncancel>>

Init == /\ paused = FALSE /\ lost = "no" /\ lostSched = FALSE /\ closing = FALSE /\ waiters = <<>>
        /\ fut = [s \in Senders |-> "none"] /\ pc = [s \in Senders |-> "idle"] /\ mustc = {} /\ closer = "none"
        /\ ready = <<>> /\ nenv = 0 /\ ncancel = 0

Env == nenv < MaxEnv /\ nenv' = nenv + 1
\* wake-ups of the senders whose future is completed now, in registration order
Wakes(done) == [i \in 1..Len(SelectSeq(waiters, LAMBDA x : x \in done)) |-> <<"wake", SelectSeq(waiters, LAMBDA x : x \in done)[i]>>]
Pending == {s \in Senders : fut[s] = "pending"}

\* ---- environment ----
Send(s) == /\ Env /\ pc[s] = "idle" /\ pc' = [pc EXCEPT ![s] = "starting"] /\ ready' = Append(ready, <<"start", s>>)
           /\ UNCHANGED <<paused, lost, lostSched, closing, waiters, fut, mustc, closer, ncancel>>
Pause == /\ Env /\ ~paused /\ ~lostSched /\ paused' = TRUE
         /\ UNCHANGED <<lost, lostSched, closing, waiters, fut, pc, mustc, closer, ready, ncancel>>
Resume == /\ Env /\ paused /\ ~lostSched /\ paused' = FALSE
          /\ fut' = [s \in Senders |-> IF fut[s] = "pending" THEN "result" ELSE fut[s]]
          /\ ready' = ready \o Wakes(Pending)
          /\ UNCHANGED <<lost, lostSched, closing, waiters, pc, mustc, closer, ncancel>>
Close == /\ Env /\ closer = "none" /\ closer' = "starting" /\ ready' = Append(ready, <<"close", 0>>)
         /\ UNCHANGED <<paused, lost, lostSched, closing, waiters, fut, pc, mustc, ncancel>>
CancelClose == /\ Env /\ closer = "waiting" /\ closer' = "cancelling" /\ ready' = Append(ready, <<"closer", 0>>)
               /\ UNCHANGED <<paused, lost, lostSched, closing, waiters, fut, pc, mustc, ncancel>>
Fatal == /\ Env /\ ~lostSched /\ lostSched' = TRUE /\ closing' = TRUE /\ ready' = Append(ready, <<"lost", "exc">>)
         /\ UNCHANGED <<paused, lost, waiters, fut, pc, mustc, closer, ncancel>>
Flushed == /\ Env /\ closing /\ ~lostSched /\ ~paused /\ lostSched' = TRUE /\ ready' = Append(ready, <<"lost", "clean">>)
           /\ UNCHANGED <<paused, lost, closing, waiters, fut, pc, mustc, closer, ncancel>>
Cancel(s) ==
  /\ ncancel < MaxCancel /\ ncancel' = ncancel + 1 /\ s \notin mustc
  /\ \/ /\ pc[s] = "parked" /\ fut[s] = "pending" /\ fut' = [fut EXCEPT ![s] = "cancelled"]
        /\ ready' = Append(ready, <<"wake", s>>) /\ UNCHANGED mustc
     \/ /\ pc[s] = "parked" /\ fut[s] # "pending" /\ mustc' = mustc \cup {s} /\ UNCHANGED <<fut, ready>>
     \/ /\ pc[s] = "yield" /\ mustc' = mustc \cup {s} /\ UNCHANGED <<fut, ready>>
  /\ UNCHANGED <<paused, lost, lostSched, closing, waiters, pc, closer, nenv>>

\* ---- the loop runs one ready callback ----
\* body of drain() after the optional yield
Body(s) ==
  IF lost # "no" THEN pc' = [pc EXCEPT ![s] = "err"] /\ UNCHANGED <<waiters, fut>>
  ELSE IF ~paused THEN pc' = [pc EXCEPT ![s] = "ok"] /\ UNCHANGED <<waiters, fut>>
  ELSE pc' = [pc EXCEPT ![s] = "parked"] /\ waiters' = Append(waiters, s) /\ fut' = [fut EXCEPT ![s] = "pending"]
Rest == Tail(ready)
Run ==
  /\ ready # <<>>
  /\ LET h == Head(ready) IN
     \/ /\ h[1] = "start"     \* sendto(), then the first step of drain()
        /\ IF closing
           THEN pc' = [pc EXCEPT ![h[2]] = "yield"] /\ ready' = Append(Rest, <<"yield", h[2]>>) /\ UNCHANGED <<waiters, fut>>
           ELSE Body(h[2]) /\ ready' = Rest
        /\ UNCHANGED <<paused, lost, lostSched, closing, mustc, closer>>
     \/ /\ h[1] = "yield"
        /\ IF h[2] \in mustc
           THEN pc' = [pc EXCEPT ![h[2]] = "cancelled"] /\ mustc' = mustc \ {h[2]} /\ UNCHANGED <<waiters, fut>>
           ELSE Body(h[2]) /\ UNCHANGED mustc
        /\ ready' = Rest /\ UNCHANGED <<paused, lost, lostSched, closing, closer>>
     \/ /\ h[1] = "wake"
        /\ waiters' = SelectSeq(waiters, LAMBDA x : x # h[2])
        /\ pc' = [pc EXCEPT ![h[2]] = IF h[2] \in mustc \/ fut[h[2]] = "cancelled" THEN "cancelled"
                                      ELSE IF fut[h[2]] = "result" THEN "ok" ELSE "err"]
        /\ fut' = [fut EXCEPT ![h[2]] = "none"] /\ mustc' = mustc \ {h[2]} /\ ready' = Rest
        /\ UNCHANGED <<paused, lost, lostSched, closing, closer>>
     \/ /\ h[1] = "close"     \* first step of aclose(): transport.close() - with nothing buffered the loss is scheduled at once
        /\ closer' = IF lost # "no" THEN "done" ELSE "waiting"
        /\ closing' = TRUE
        /\ IF ~closing /\ ~paused /\ ~lostSched
           THEN lostSched' = TRUE /\ ready' = Append(Rest, <<"lost", "clean">>)
           ELSE UNCHANGED lostSched /\ ready' = Rest
        /\ UNCHANGED <<paused, lost, waiters, fut, pc, mustc>>
     \/ /\ h[1] = "closer"    \* the aclose() task is resumed: by the loss, or by its cancellation
        /\ closer' = IF closer = "cancelling" THEN "cancelled" ELSE IF closer = "waiting" THEN "done" ELSE closer
        /\ ready' = Rest /\ UNCHANGED <<paused, lost, lostSched, closing, waiters, fut, pc, mustc>>
     \/ /\ h[1] = "lost"      \* connection_lost(exc): the close waiter is completed, every parked sender fails
        /\ lost' = h[2] /\ paused' = FALSE /\ closing' = TRUE
        /\ fut' = [s \in Senders |-> IF fut[s] = "pending" THEN "exception" ELSE fut[s]]
        /\ ready' = (IF closer = "waiting" THEN Append(Rest, <<"closer", 0>>) ELSE Rest) \o Wakes(Pending)
        /\ UNCHANGED <<lostSched, waiters, pc, mustc, closer>>
  /\ UNCHANGED <<nenv, ncancel>>

Next == Run \/ Pause \/ Resume \/ Close \/ CancelClose \/ Fatal \/ Flushed \/ \E s \in Senders : Send(s) \/ Cancel(s)
Spec == Init /\ [][Next]_vars /\ WF_vars(Run)
-----------------------------------------------------------------------------
Quiescent == ready = <<>>
\* nobody is stranded: at rest, a sender is parked only while writing is paused on a live connection
NoStrandedSender == Quiescent => \A s \in Senders : pc[s] \in {"idle", "ok", "err", "cancelled"} \/ (pc[s] = "parked" /\ fut[s] = "pending" /\ paused /\ lost = "no")
\* a dead connection is never reported as a successful send to a sender that started after the loss was scheduled:
\* (checked as an action property) a sender turning "ok" requires that the loss has not been delivered
OkOnlyOnLiveConnection == [][\A s \in Senders : (pc[s] # "ok" /\ pc'[s] = "ok") => lost = "no"]_vars
\* a send started once the transport is closing at once (Fatal, or close with nothing buffered) never succeeds
OkNeedsNoPendingLoss == [][\A s \in Senders : (pc[s] = "starting" /\ pc'[s] = "ok") => ~lostSched]_vars
\* cancelling the close changes nothing for the senders
CancelCloseIsolated == [][closer = "waiting" /\ closer' = "cancelling" => pc' = pc /\ fut' = fut /\ waiters' = waiters]_vars
\* aclose() ends once the loss is delivered (or by its own cancellation)
CloserEnds == (closer = "waiting" /\ lost # "no") ~> (closer \in {"done", "cancelled"})
SendersEnd == \A s \in Senders : (pc[s] = "parked" /\ fut[s] # "pending") ~> (pc[s] # "parked")
=============================================================================
