------------------------- MODULE TLSTruncationTrace -------------------------
(* trace = [par |-> [total, cut, plain, standard], events |-> << [ev, n, ok] >>]
   "wrap_error" ok (ok = the wrapped transport was closed) | "wrap_ok" | "data" n ok (ok = bytes match the plaintext at that offset)
   | "eof" | "error" | "caller_eof" | "caller_error" (what recv_packet told its caller, at the end and when asked again)                                                                                                     *)
EXTENDS TLSTruncation, Sequences, Json, IOUtils
Traces == JsonDeserialize(IOEnv.TRACE_FILE)
VARIABLES tid, l
T == Traces[tid]
Ev == T.events[l]
TInit == tid \in 1..Len(Traces) /\ l = 1 /\ par = Traces[tid].par /\ phase = "hs" /\ got = 0 /\ ending = "none"
IsEvent(e) == l <= Len(T.events) /\ Ev.ev = e /\ l' = l + 1 /\ UNCHANGED tid
TNext == /\ (CleanEofOnlyAfterCloseNotify /\ TruncationIsReported /\ NothingInvented) = TRUE
         /\ \/ IsEvent("wrap_error") /\ WrapError /\ Ev.ok = TRUE
            \/ IsEvent("wrap_ok") /\ WrapOk
            \/ IsEvent("data") /\ Ev.ok = TRUE /\ Data(Ev.n)
            \/ IsEvent("eof") /\ Eof
            \/ IsEvent("error") /\ Error
            \/ IsEvent("caller_eof") /\ CallerEof
            \/ IsEvent("caller_error") /\ CallerError
            \/ IsEvent("caller_unknown") /\ (CallerEof \/ CallerError)   \* ECONNABORTED with no reason attached
ASSUME \A x \in 1..Len(Traces) : TLCSet(x, 0)
Constr == TLCSet(tid, IF TLCGet(tid) > l THEN TLCGet(tid) ELSE l)
Post == LET bad == {x \in 1..Len(Traces) : TLCGet(x) <= Len(Traces[x].events)} IN
        IF bad = {} THEN TRUE ELSE PrintT(<<"REJECTED", [x \in bad |-> TLCGet(x)]>>) /\ FALSE
=============================================================================
