----------------------------- MODULE ParseTotal -----------------------------
(* C06: the only things a parse step may do with network bytes.
   held = bytes currently owned by the consumer (leftover + swallowed by the suspended parser).
   Feed(n): n more bytes are given (n = 0: next(None) on the leftover).  Outcomes:
     "more"           nothing deliverable yet, everything is kept
     "pkt"  / "err"   a packet / a protocol parse error; r bytes remain; at least one byte was consumed (r < held + n)
   Anything else - another exception type, a crash, a hang - has no action.  One-shot parsing is Feed on an empty
   consumer whose outcome must be "pkt" or "err" with r = 0.                                                        *)
EXTENDS Naturals, TLC
CONSTANTS MaxBytes
VARIABLES held, fed, errs
vars == <<held, fed, errs>>
Init == held = 0 /\ fed = 0 /\ errs = 0
More(n) == fed + n <= MaxBytes /\ held + n > 0 /\ held' = held + n /\ fed' = fed + n /\ UNCHANGED errs
Outcome(n, k, r) == /\ fed + n <= MaxBytes /\ k \in {"pkt", "err"} /\ r < held + n
                    /\ held' = r /\ fed' = fed + n /\ errs' = (IF k = "err" THEN errs + 1 ELSE errs)
Next == \E n \in 0..MaxBytes : More(n) \/ (\E k \in {"pkt", "err"}, r \in 0..MaxBytes : Outcome(n, k, r))
Spec == Init /\ [][Next]_vars
\* a receive loop that skips errors makes progress: the number of error outcomes is bounded by the bytes received
Progress == errs <= fed
Bounded == held <= fed
=============================================================================
