------------------------------ MODULE StreamAbs ------------------------------
(* Content-free framing law that every incremental (de)serializer must obey (C01):
   the stream is a sequence of frames given by their end offsets; bytes are fed in arbitrary portions; the k-th
   delivery is the k-th frame, exactly once, in order; a frame is deliverable as soon as (and only when) all of its
   bytes have been fed - parsing depends only on the bytes, not on how they were cut; when nothing is deliverable
   the consumer says so; after the last byte nothing is held.                                                    *)
EXTENDS Naturals, Sequences, FiniteSets, TLC

CONSTANTS EndSets,    \* set of sequences of cumulative frame end offsets to explore
          MaxRead

VARIABLES ends, fed, delivered
vars == <<ends, fed, delivered>>

Total == IF Len(ends) = 0 THEN 0 ELSE ends[Len(ends)]
Complete(n) == Cardinality({i \in 1..Len(ends) : ends[i] <= n})

Init == ends \in EndSets /\ fed = 0 /\ delivered = 0
Feed(n) == /\ n > 0 /\ fed + n <= Total /\ fed' = fed + n /\ UNCHANGED <<ends, delivered>>
Deliver == /\ delivered < Complete(fed) /\ delivered' = delivered + 1 /\ UNCHANGED <<ends, fed>>
Next == (\E n \in 1..MaxRead : Feed(n)) \/ Deliver
Spec == Init /\ [][Next]_vars /\ WF_vars(Deliver)

NeverAhead == delivered <= Complete(fed)
InOrderOnce == [][delivered' \in {delivered, delivered + 1}]_vars
AllDelivered == <>[](fed = Total => delivered = Complete(fed))
=============================================================================
