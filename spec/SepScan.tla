---------------------------- MODULE SepScan ----------------------------
(* Operational model of the two separator scanners of EasyNetwork:
     copy path:     StreamDataConsumer + GeneratorStreamReader.read_until           (lowlevel/_stream.py, serializers/tools.py)
     buffered path: BufferedStreamDataConsumer + _buffered_readuntil                (lowlevel/_stream.py, serializers/base_stream.py)
   plus LimitOverrunError's remainder computation (exceptions.py).  Byte level, small alphabet:
     0 = payload byte, 8 = payload byte the serializer cannot decode, 1..seplen = the separator bytes, 9 = a buffer
     cell that was never written by the network (the serializer-owned bytearray(limit) starts zero-filled).

   The parameters live in the variable `par` (never changes) so that one TLC run covers several separator lengths /
   limits / both paths, and so that the trace specification can take them from each recorded trace.
     par.seplen, par.limit, par.maxread, par.path ("copy" | "buf"), par.emptyerr (an empty frame is a parse error: JSON lines),
     par.faithful: TRUE = LimitOverrunError built from the whole bytearray as the code before the fix did (stale cells
                   leak into the remainder); FALSE = remainder computed from the received bytes only (intended design).   *)
EXTENDS Naturals, Sequences, FiniteSets, TLC, SequencesExt

CONSTANTS Params,      \* set of parameter records explored
          MaxStream,   \* bound on the total number of bytes produced by the peer
          Alphabet     \* payload alphabet, subset of {0, 8}

Stale == 9
Bad == 8

VARIABLES par, sent, unread, rbuf, off, active, left, mem, buflen, pending, out, consumed
vars == <<par, sent, unread, rbuf, off, active, left, mem, buflen, pending, out, consumed>>

SepLen == par.seplen
Limit == par.limit
Sep == [i \in 1..SepLen |-> i]
Bytes == Alphabet \cup (1..SepLen)

SubSeqS(s, a, b) == IF a > b THEN <<>> ELSE SubSeq(s, a, b)
IsPrefixOf(p, s) == Len(p) <= Len(s) /\ SubSeqS(s, 1, Len(p)) = p
MinN(a, b) == IF a < b THEN a ELSE b
\* first index (1-based) >= from at which Sep occurs in s[1..upto], 0 if none
Find(s, from, upto) ==
  LET C == {i \in from..(upto - SepLen + 1) : SubSeq(s, i, i + SepLen - 1) = Sep}
  IN IF C = {} THEN 0 ELSE CHOOSE i \in C : \A j \in C : i <= j

\* LimitOverrunError(buffer, consumed, separator).remaining_data   (cons is a 0-based count)
Remainder(buffer, cons) ==
  LET r0 == SubSeqS(buffer, cons + 1, Len(buffer))
      RECURSIVE Skip(_)
      Skip(r) == IF Len(r) = 0 THEN r
                 ELSE IF SubSeqS(r, 1, MinN(SepLen, Len(r))) = SubSeqS(Sep, 1, MinN(SepLen, Len(r)))
                      THEN r ELSE Skip(Tail(r))
  IN IF IsPrefixOf(Sep, r0) THEN SubSeqS(r0, SepLen + 1, Len(r0)) ELSE Skip(r0)

\* deserialize(payload)
Decode(d) == [k |-> IF (\E i \in 1..Len(d) : d[i] = Bad) \/ (par.emptyerr /\ d = <<>>) THEN "err" ELSE "pkt", data |-> d]

Init == /\ par \in Params
        /\ sent = <<>> /\ unread = <<>> /\ rbuf = <<>> /\ off = 0 /\ active = FALSE /\ left = <<>>
        /\ mem = [i \in 1..par.limit |-> Stale] /\ buflen = 0 /\ pending = FALSE /\ out = <<>> /\ consumed = 0

PeerSend(b) == /\ Len(sent) < MaxStream
               /\ sent' = Append(sent, b) /\ unread' = Append(unread, b)
               /\ UNCHANGED <<par, rbuf, off, active, left, mem, buflen, pending, out, consumed>>

-----------------------------------------------------------------------------
(* copy path: one call of consumer.next(chunk); chunk = <<>> is next(None) *)
CopyStep(buffer, offset) ==     \* body of read_until's loop on an already non-empty buffer
  LET bl == Len(buffer) IN
  IF bl - offset >= SepLen
  THEN LET idx == Find(buffer, offset + 1, bl) IN       \* 1-based index, 0 = not found
       IF idx # 0
       THEN IF idx - 1 > Limit
            THEN [k |-> "limit", rem |-> Remainder(buffer, idx - 1), off |-> 0]
            ELSE [k |-> "pkt", data |-> SubSeqS(buffer, 1, idx - 1), rem |-> SubSeqS(buffer, idx + SepLen, bl), off |-> 0]
       ELSE LET o2 == bl + 1 - SepLen IN
            IF o2 > Limit THEN [k |-> "limit", rem |-> Remainder(buffer, o2), off |-> 0]
            ELSE [k |-> "more", off |-> o2]
  ELSE [k |-> "more", off |-> offset]

CopyNext(chunk) ==
  /\ par.path = "copy"
  /\ LET data == IF Len(chunk) = 0 THEN left ELSE left \o chunk IN
     /\ Len(data) > 0                      \* otherwise StopIteration, nothing changes
     /\ LET buffer == IF active THEN rbuf \o data ELSE data
            r == CopyStep(buffer, IF active THEN off ELSE 0)
        IN CASE r.k = "more"  -> /\ active' = TRUE /\ rbuf' = buffer /\ off' = r.off /\ left' = <<>> /\ UNCHANGED <<out, consumed>>
             [] r.k = "pkt"   -> /\ active' = FALSE /\ rbuf' = <<>> /\ off' = 0 /\ left' = r.rem
                                 /\ out' = Append(out, Decode(r.data)) /\ consumed' = consumed + Len(buffer) - Len(r.rem)
             [] r.k = "limit" -> /\ active' = FALSE /\ rbuf' = <<>> /\ off' = 0 /\ left' = r.rem
                                 /\ out' = Append(out, [k |-> "limit", data |-> <<>>]) /\ consumed' = consumed + Len(buffer) - Len(r.rem)

CopyRead(n) == /\ par.path = "copy" /\ n \in 1..par.maxread /\ n <= Len(unread)
               /\ CopyNext(SubSeq(unread, 1, n)) /\ unread' = SubSeqS(unread, n + 1, Len(unread))
               /\ UNCHANGED <<par, sent, mem, buflen, pending>>
CopyDrain == /\ par.path = "copy" /\ ~active /\ Len(left) > 0
             /\ CopyNext(<<>>) /\ UNCHANGED <<par, sent, unread, mem, buflen, pending>>

-----------------------------------------------------------------------------
(* buffered path.  mem is the serializer-owned bytearray(limit); buflen bytes are valid; the consumer writes at
   position buflen (the generator yields buflen as the next start; already_written is folded into buflen). *)
BufStep(m, bl, offset) ==
  LET valid == [i \in 1..bl |-> m[i]] IN
  IF bl - offset >= SepLen
  THEN LET idx == Find(valid, offset + 1, bl) IN
       IF idx # 0
       THEN [k |-> "pkt", data |-> SubSeqS(valid, 1, idx - 1), rem |-> SubSeqS(valid, idx + SepLen, bl)]
       ELSE LET o2 == bl + 1 - SepLen IN
            IF o2 + SepLen + 1 > Limit        \* o2 > (len(buffer) - 1) - seplen
            THEN [k |-> "limit", rem |-> Remainder(IF par.faithful THEN [i \in 1..Limit |-> m[i]] ELSE valid, o2)]
            ELSE [k |-> "more", off |-> o2]
  ELSE [k |-> "more", off |-> offset]

\* after a packet/limit error the remainder is copied to the start of mem and is parsed by a *new* generator
BufApply(m, bl, offset) ==
  LET r == BufStep(m, bl, offset) IN
  CASE r.k = "more" -> /\ mem' = m /\ buflen' = bl /\ off' = r.off /\ pending' = FALSE /\ UNCHANGED <<out, consumed>>
    [] OTHER -> /\ mem' = [i \in 1..Limit |-> IF i <= Len(r.rem) THEN r.rem[i] ELSE m[i]]
                /\ buflen' = Len(r.rem) /\ off' = 0 /\ pending' = (Len(r.rem) > 0)
                /\ out' = Append(out, IF r.k = "pkt" THEN Decode(r.data) ELSE [k |-> "limit", data |-> <<>>])
                /\ consumed' = consumed + bl - Len(r.rem)

BufRead(n) == /\ par.path = "buf" /\ n \in 1..par.maxread /\ n <= Len(unread) /\ buflen + n <= Limit
              /\ LET m2 == [i \in 1..Limit |-> IF i > buflen /\ i <= buflen + n THEN unread[i - buflen] ELSE mem[i]]
                 IN BufApply(m2, buflen + n, off)
              /\ unread' = SubSeqS(unread, n + 1, Len(unread))
              /\ UNCHANGED <<par, sent, rbuf, active, left>>
\* next(None) after a remainder has been saved: the new generator parses what is already in the buffer
BufDrain == /\ par.path = "buf" /\ pending
            /\ BufApply(mem, buflen, 0) /\ UNCHANGED <<par, sent, unread, rbuf, active, left>>

Next == (\E b \in Bytes : PeerSend(b)) \/ (\E n \in 1..par.maxread : CopyRead(n) \/ BufRead(n)) \/ CopyDrain \/ BufDrain
Spec == Init /\ [][Next]_vars

-----------------------------------------------------------------------------
(* reference: frame-by-frame decoding of a byte string.  The separator bytes are pairwise distinct, so occurrences of the
   separator never overlap: the frames are delimited by all occurrences, in order.  (Written without recursion: TLC
   re-evaluates recursive definitions far too often for this to be usable inside invariants.) *)
SepPositions(s) == {i \in 1..(Len(s) - SepLen + 1) : SubSeq(s, i, i + SepLen - 1) = Sep}
\* frame table: start offset (0-based), end offset (exclusive, after the separator), payload length
FrameTable(s) ==
  LET P == SetToSortSeq(SepPositions(s), LAMBDA x, y : x < y) IN
  [k \in 1..Len(P) |-> LET st == IF k = 1 THEN 0 ELSE P[k - 1] + SepLen - 1 IN [st |-> st, en |-> P[k] + SepLen - 1, p |-> P[k] - 1 - st]]
RefOf(s, F) == [k \in 1..Len(F) |-> IF F[k].p > Limit THEN [k |-> "limit", data |-> <<>>] ELSE Decode(SubSeqS(s, F[k].st + 1, F[k].st + F[k].p))]
Ref(s) == RefOf(s, FrameTable(s))
MaxPayloadOf(s, F) == LET tail == Len(s) - (IF Len(F) = 0 THEN 0 ELSE F[Len(F)].en)
                          S == {F[k].p : k \in 1..Len(F)} \cup {tail}
                      IN CHOOSE m \in S : \A x \in S : x <= m
\* "safely within the limit": the exact threshold below which both paths accept under every chunking
SafeOf(s, F) == MaxPayloadOf(s, F) + SepLen <= Limit - 1
Safe(s) == SafeOf(s, FrameTable(s))

Quiescent == /\ unread = <<>>
             /\ (par.path = "copy" => (left = <<>> \/ active))
             /\ (par.path = "buf" => ~pending)
\* C01/C02: for safe streams the outputs are exactly the reference decoding, whatever the chunking / path
SafeAgree == LET F == FrameTable(sent) R == RefOf(sent, F) IN
             SafeOf(sent, F) => /\ Len(out) <= Len(R) /\ \A i \in 1..Len(out) : out[i] = R[i]
SafeComplete == LET F == FrameTable(sent) IN (SafeOf(sent, F) /\ Quiescent) => out = RefOf(sent, F)
NoLimitOnSafe == (\E i \in 1..Len(out) : out[i].k = "limit") => ~Safe(sent)
\* C07: held bytes are bounded
Held == IF par.path = "copy" THEN Len(left) + (IF active THEN Len(rbuf) ELSE 0) ELSE buflen
Bound == Held <= Limit + par.maxread + SepLen
\* C07: unterminated data beyond the bound has been rejected: what is held never contains more than limit+seplen
\* bytes without a separator once a scan step has looked at it
StaleFree == \A i \in 1..Len(out) : \A j \in 1..Len(out[i].data) : out[i].data[j] # Stale
Unsafe(f) == f.p + SepLen >= Limit
\* every delivered packet (or parse error) is a real frame starting at a frame boundary, or debris lying entirely inside a frame
\* that is not safely within the limit
Aligned == LET Frames == FrameTable(sent) IN
   \A i \in 1..Len(out) : out[i].k \in {"pkt", "err"} =>
   LET d == out[i].data IN
   \E a \in 0..Len(sent) :
      /\ IsPrefixOf(d \o Sep, SubSeqS(sent, a + 1, Len(sent)))
      /\ \/ a = 0
         \/ \E j \in 1..Len(Frames) : Frames[j].en = a
         \/ \E j \in 1..Len(Frames) : Unsafe(Frames[j]) /\ Frames[j].st <= a /\ a + Len(d) + SepLen <= Frames[j].en
\* resync (C02, second sentence): at quiescence the frames after the last unsafe frame are exactly the last outputs
Resync == LET Frames == FrameTable(sent)
              U == {j \in 1..Len(Frames) : Unsafe(Frames[j])}
              j == IF U = {} THEN 0 ELSE CHOOSE x \in U : \A y \in U : y <= x
              n == Len(Frames) - j
              TailLen == Len(sent) - (IF Len(Frames) = 0 THEN 0 ELSE Frames[Len(Frames)].en)
          IN (Quiescent /\ TailLen + SepLen <= Limit - 1) =>
               /\ Len(out) >= n
               /\ \A k \in 1..n : out[Len(out) - n + k] = Decode(SubSeqS(sent, Frames[j + k].st + 1, Frames[j + k].st + Frames[j + k].p))
\* C06: every error outcome consumes at least one byte (a receive loop that skips errors makes progress)
Progress == [][\A i \in 1..Len(out') : (i > Len(out) /\ out'[i].k \in {"err", "limit"}) => consumed' > consumed]_vars
=============================================================================
