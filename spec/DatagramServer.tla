--------------------------- MODULE DatagramServer ---------------------------
(* AsyncDatagramServer.serve() for ONE client address (nothing is shared between the _ClientData objects of
   different addresses): the per-address queue, the None / TASK_PENDING / TASK_RUNNING state, the per-datagram tasks
   started by the listener, the client coroutine with its handler generators and the synchronous done-hook that
   restarts a task when datagrams are still queued.

   Datagrams are numbered 1..N in arrival order; the listener starts one task per datagram, in order.
   Plan[g] = number of requests the g-th handler generator takes before it returns (>= 1; the last entry repeats);
   a generator may also yield a timeout and receive TimeoutError when nothing arrives in time: modelled by the
   environment action ClientTimeout (the generator then goes on waiting or returns, according to AfterTimeout).     *)
EXTENDS Naturals, Sequences, FiniteSets, TLC

CONSTANTS Params    \* set of parameter records [n, plan, lockyields, timeouts, aftertimeout] explored (kept in the variable `par`)
\*   n            datagrams that will arrive
\*   plan         sequence of requests-per-generator
\*   lockyields   TRUE: acquiring the condition lock in push_datagram is a checkpoint (backends whose lock always yields)
\*   timeouts     TRUE: generators wait for the next request with a timeout that may expire
\*   aftertimeout "continue" | "return": what a generator does when TimeoutError is thrown into it

VARIABLES par, arrived,    \* number of datagrams handed to the listener so far
          dtask,      \* dtask[i] in {"new","pushing","done","client"} : the per-datagram task (client: it runs the client coroutine inline)
          queue, state,        \* _ClientData
          ctask,      \* the client coroutine: [st, served, gen]; st in {"none","pending","first","wait","handling","finishing"}
          seen,       \* sequence of datagram ids received by handler generators (across generators)
          gens,       \* number of generators currently active
          ngen        \* number of generators started so far
vars == <<par, arrived, dtask, queue, state, ctask, seen, gens, ngen>>
N == par.n
Plan == par.plan
LockYields == par.lockyields
Timeouts == par.timeouts
AfterTimeout == par.aftertimeout

PerGen(g) == IF g <= Len(Plan) THEN Plan[g] ELSE Plan[Len(Plan)]

Init == /\ par \in Params /\ arrived = 0 /\ dtask = [i \in 1..par.n |-> "new"] /\ queue = <<>> /\ state = "None"
        /\ ctask = [st |-> "none", served |-> 0] /\ seen = <<>> /\ gens = 0 /\ ngen = 0

\* the harness gives datagram i to the listener, which creates its task (tasks start in creation order)
Arrive == /\ arrived < N /\ arrived' = arrived + 1 /\ UNCHANGED <<par, dtask, queue, state, ctask, seen, gens, ngen>>

\* first step of datagram task i: push_datagram appends *before* any await
Push(i) == /\ i <= arrived /\ dtask[i] = "new" /\ \A j \in 1..(i - 1) : dtask[j] # "new"
           /\ queue' = Append(queue, i)
           /\ \/ /\ state # "None" /\ LockYields          \* the lock acquisition suspends the task (it may, on such backends)
                 /\ dtask' = [dtask EXCEPT ![i] = "pushing"] /\ UNCHANGED <<state, ctask>>
              \/ /\ state = "None"
                 /\ state' = "RUNNING" /\ dtask' = [dtask EXCEPT ![i] = "client"]     \* mark_pending + mark_running: no await in between
                 /\ ctask' = [st |-> "first", served |-> 0]
              \/ /\ state # "None"
                 /\ dtask' = [dtask EXCEPT ![i] = "done"] /\ UNCHANGED <<state, ctask>>
           /\ UNCHANGED <<par, arrived, seen, gens, ngen>>
PushResume(i) == /\ dtask[i] = "pushing"
                 /\ IF state = "None" /\ Len(queue) > 0
                    THEN /\ state' = "RUNNING" /\ dtask' = [dtask EXCEPT ![i] = "client"] /\ ctask' = [st |-> "first", served |-> 0]
                    ELSE dtask' = [dtask EXCEPT ![i] = "done"] /\ UNCHANGED <<state, ctask>>
                 /\ UNCHANGED <<par, arrived, queue, seen, gens, ngen>>

\* a fresh task started by the done-hook begins: mark_running
ClientStart == /\ ctask.st = "pending" /\ state = "PENDING"
               /\ state' = "RUNNING" /\ ctask' = [st |-> "first", served |-> 0]
               /\ UNCHANGED <<par, arrived, dtask, queue, seen, gens, ngen>>
\* pop_datagram_no_wait + the generator runs up to its first yield
GenStart == /\ ctask.st = "first" /\ state = "RUNNING" /\ queue # <<>>
            /\ queue' = Tail(queue) /\ gens' = gens + 1 /\ ngen' = ngen + 1
            /\ ctask' = [st |-> "starting", served |-> 0, first |-> Head(queue)]
            /\ UNCHANGED <<par, arrived, dtask, state, seen>>
\* the first request is sent into the generator
GenFirst == /\ ctask.st = "starting"
            /\ seen' = Append(seen, ctask.first)
            /\ ctask' = [st |-> "handling", served |-> 1]
            /\ UNCHANGED <<par, arrived, dtask, queue, state, gens, ngen>>
\* the generator finished handling a request: it yields again or returns (then it is closed)
GenYield == /\ ctask.st = "handling" /\ ctask.served < PerGen(ngen)
            /\ ctask' = [ctask EXCEPT !.st = "wait"]
            /\ UNCHANGED <<par, arrived, dtask, queue, state, seen, gens, ngen>>
GenReturn == /\ ctask.st = "handling" /\ ctask.served >= PerGen(ngen)
             /\ ctask' = [ctask EXCEPT !.st = "finishing"] /\ gens' = gens - 1
             /\ UNCHANGED <<par, arrived, dtask, queue, state, seen, ngen>>
\* pop_datagram(): returns the head as soon as the queue is non-empty; the request is sent into the generator
GenNext == /\ ctask.st = "wait" /\ queue # <<>>
           /\ queue' = Tail(queue) /\ seen' = Append(seen, Head(queue))
           /\ ctask' = [st |-> "handling", served |-> ctask.served + 1]
           /\ UNCHANGED <<par, arrived, dtask, state, gens, ngen>>
\* the yielded timeout expires while the queue is empty: TimeoutError is thrown into the generator
GenTimeout == /\ Timeouts /\ ctask.st = "wait" /\ queue = <<>>
              /\ IF AfterTimeout = "return"
                 THEN ctask' = [ctask EXCEPT !.st = "finishing"] /\ gens' = gens - 1
                 ELSE UNCHANGED <<ctask, gens>>
              /\ UNCHANGED <<par, arrived, dtask, queue, state, seen, ngen>>
\* finally: __on_client_coroutine_task_done (synchronous): mark_done, restart if the queue is not empty
ClientDone == /\ ctask.st = "finishing" /\ state = "RUNNING"
              /\ IF queue = <<>> THEN state' = "None" /\ ctask' = [st |-> "none", served |-> 0]
                 ELSE state' = "PENDING" /\ ctask' = [st |-> "pending", served |-> 0]
              /\ dtask' = [i \in 1..N |-> IF dtask[i] = "client" THEN "done" ELSE dtask[i]]
              /\ UNCHANGED <<par, arrived, queue, seen, gens, ngen>>

Idle == arrived = N /\ (\A i \in 1..N : dtask[i] \in {"done", "client"}) /\ ctask.st \in {"none", "wait"} /\ queue = <<>>
Next == Arrive \/ (\E i \in 1..N : Push(i) \/ PushResume(i)) \/ ClientStart \/ GenStart \/ GenFirst \/ GenYield \/ GenReturn
        \/ GenNext \/ GenTimeout \/ ClientDone \/ (Idle /\ UNCHANGED vars)
Fair == WF_vars(\E i \in 1..N : Push(i) \/ PushResume(i)) /\ WF_vars(ClientStart) /\ WF_vars(GenStart) /\ WF_vars(GenFirst)
        /\ WF_vars(GenYield) /\ WF_vars(GenReturn) /\ WF_vars(GenNext) /\ WF_vars(ClientDone) /\ WF_vars(Arrive)
Spec == Init /\ [][Next]_vars /\ Fair

-----------------------------------------------------------------------------
OneGenerator == gens <= 1
\* per-address FIFO, exactly once: the handlers see 1, 2, 3, ... in this order
Fifo == \A k \in 1..Len(seen) : seen[k] = k
StateConsistent == /\ (state = "None") = (ctask.st = "none")
                   /\ (state = "PENDING") = (ctask.st = "pending")
\* the "inconsistent state" RuntimeError is unreachable: mark_pending only from None, mark_running only from PENDING,
\* mark_done only from RUNNING -- these are the guards of the actions above; here: never two coroutine owners
OneOwner == Cardinality({i \in 1..N : dtask[i] = "client"}) <= 1
\* nothing is dropped: every datagram is eventually seen by a handler
AllHandled == <>(Len(seen) = N)
\* a queued datagram never waits behind a finished coroutine
NoStrandedDatagram == (queue # <<>> /\ state = "None") => \E i \in 1..N : dtask[i] \in {"new", "pushing"} /\ i <= arrived
=============================================================================
