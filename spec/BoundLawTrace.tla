--------------------------- MODULE BoundLawTrace ---------------------------
(* trace = [par |-> [limit, seplen, maxread, payload, terminated], events |-> << [ev, n, k, held] >>]
   "read" n k held | "end" (everything was fed, or an outcome ended the frame)                                             *)
EXTENDS BoundLaw, Integers, Sequences, Json, IOUtils
Traces == JsonDeserialize(IOEnv.TRACE_FILE)
VARIABLES tid, l
T == Traces[tid]
Ev == T.events[l]
TInit == tid \in 1..Len(Traces) /\ l = 1 /\ par = Traces[tid].par /\ fed = 0 /\ state = "open" /\ maxheld = 0
IsEvent(e) == l <= Len(T.events) /\ Ev.ev = e /\ l' = l + 1 /\ UNCHANGED tid
TRead == IsEvent("read") /\ Read(Ev.n, Ev.k, Ev.held)
TEnd == IsEvent("end") /\ (state # "open" \/ fed = Total) /\ (Bound /\ SafeDelivered) = TRUE /\ UNCHANGED vars
TNext == TRead \/ TEnd
ASSUME \A x \in 1..Len(Traces) : TLCSet(x, 0)
Constr == TLCSet(tid, IF TLCGet(tid) > l THEN TLCGet(tid) ELSE l)
Post == LET bad == {x \in 1..Len(Traces) : TLCGet(x) <= Len(Traces[x].events)} IN
        IF bad = {} THEN TRUE ELSE PrintT(<<"REJECTED", [x \in bad |-> TLCGet(x)]>>) /\ FALSE
=============================================================================
