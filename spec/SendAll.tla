------------------------------ MODULE SendAll ------------------------------
(* Blocking send of one packet (C04, with the time budget of C11):
     mode "sendmsg":  SocketStreamTransport.send_all_from_iterable
                        buffers = deque(map(memoryview, chunks))
                        while buffers: sent, timeout = _retry(sendmsg(islice(buffers, IOV_MAX)), timeout); adjust_leftover_buffer(buffers, sent)
     mode "join":     StreamWriteTransport.send_all_from_iterable / send_all
                        data = b"".join(chunks); while total_sent < len(data): sent = send(data[total_sent:], timeout) ...
   with SelectorBaseTransport._retry (would-block -> wait at most min(timeout, retry_interval) -> recompute -> retry).
   Integer time.  par = [chunks, iovmax, mode, budget, inf, ri, fixed]
     budget / inf : the timeout T (inf = TRUE: no timeout);  ri : retry interval (0 = infinite)
     fixed = FALSE: the sendmsg loop as it was (empty views are offered to sendmsg for ever: F2); TRUE: empty views are skipped.   *)
EXTENDS Naturals, Sequences, TLC

CONSTANTS Params, MaxBlocks      \* MaxBlocks bounds the number of would-block results (keeps the model finite)

VARIABLES par, bufs, wire, budget, waited, st, blocks,
          over      \* time the selector slept beyond what it was asked for (late wake-ups: the environment's doing, not the caller's)
vars == <<par, bufs, wire, budget, waited, st, blocks, over>>

RECURSIVE SumSeq(_)
SumSeq(s) == IF s = <<>> THEN 0 ELSE Head(s) + SumSeq(Tail(s))
Total == SumSeq(par.chunks)
Min(a, b) == IF a < b THEN a ELSE b
NonEmpty(s) == SelectSeq(s, LAMBDA x : x > 0)

Init == /\ par \in Params
        /\ bufs = (IF par.mode = "join" THEN <<SumSeq(par.chunks)>> ELSE IF par.fixed THEN NonEmpty(par.chunks) ELSE par.chunks)
        /\ wire = 0 /\ budget = par.budget /\ waited = 0 /\ st = "attempt" /\ blocks = 0 /\ over = 0

\* adjust_leftover_buffer(buffers, n): "while nbytes > 0" -- leading empty views are NOT removed once n reaches 0
RECURSIVE Adjust(_, _)
Adjust(b, k) == IF k = 0 THEN b
                ELSE IF Head(b) <= k THEN Adjust(Tail(b), k - Head(b))
                ELSE <<Head(b) - k>> \o Tail(b)
Offered == SumSeq(SubSeq(bufs, 1, Min(Len(bufs), par.iovmax)))

\* one loop iteration whose send/sendmsg accepts k bytes (k >= 1 unless nothing but empty views is offered)
Accept(k) == /\ st = "attempt" /\ bufs # <<>>
             /\ k <= Offered /\ (k = 0 <=> Offered = 0)
             /\ IF par.mode = "join"
                THEN bufs' = (IF Offered = 0 \/ k = Head(bufs) THEN <<>> ELSE <<Head(bufs) - k>>)
                ELSE bufs' = Adjust(bufs, k)
             /\ wire' = wire + k
             /\ UNCHANGED <<par, budget, waited, st, blocks, over>>
\* EAGAIN / EINTR
Block == /\ st = "attempt" /\ bufs # <<>> /\ Offered > 0 /\ blocks < MaxBlocks
         /\ blocks' = blocks + 1
         /\ st' = (IF ~par.inf /\ budget = 0 THEN "timeout" ELSE "blocked")
         /\ UNCHANGED <<par, bufs, wire, budget, waited, over>>
WaitTime == IF par.inf THEN par.ri ELSE IF par.ri = 0 THEN budget ELSE Min(budget, par.ri)    \* 0 stands for "no bound" when inf and ri = 0
\* selector.select(wait): e = time that passed; not ready => the whole wait elapsed.  The selector may come back late (e > wait:
\* poll rounding, the thread losing the CPU): the remaining budget never goes below zero, and the excess is not the caller's fault.
Wait(e, ready) ==
  /\ st = "blocked"
  /\ IF par.inf /\ par.ri = 0
     THEN ready /\ e \in 0..2 /\ st' = "attempt" /\ UNCHANGED <<budget, over>>
     ELSE /\ (~ready => e >= WaitTime)
          /\ over' = over + (IF e > WaitTime THEN e - WaitTime ELSE 0)
          /\ budget' = (IF par.inf THEN budget ELSE IF e >= budget THEN 0 ELSE budget - e)
          /\ st' = (IF ~ready /\ ~par.inf /\ (par.ri = 0 \/ budget <= par.ri) THEN "timeout" ELSE "attempt")
  /\ waited' = waited + e
  /\ UNCHANGED <<par, bufs, wire, blocks>>
Return == st = "attempt" /\ bufs = <<>> /\ st' = "returned" /\ UNCHANGED <<par, bufs, wire, budget, waited, blocks, over>>
Done == st \in {"returned", "timeout"}
Next == (\E k \in 0..Total : Accept(k)) \/ Block \/ (\E e \in 0..3, r \in BOOLEAN : Wait(e, r)) \/ Return \/ (Done /\ UNCHANGED vars)
Spec == Init /\ [][Next]_vars /\ WF_vars(Next)

-----------------------------------------------------------------------------
\* never more than the packet, exactly the packet on return (order/content: the harness compares the wire bytes, the count is here)
WirePrefix == wire <= Total
ExactOnReturn == st = "returned" => wire = Total
\* C11: the time waited never exceeds the budget; a timeout means the budget is exhausted
WithinBudget == ~par.inf => waited <= par.budget + over
TimeoutMeansExhausted == st = "timeout" => ~par.inf /\ budget = 0
ZeroNeverWaits == (~par.inf /\ par.budget = 0) => waited = 0 /\ over = 0
\* the call always ends (returns or times out): no spinning, no blocking for ever
Terminates == <>Done
\* every loop iteration makes progress: bytes move, or a view disappears, or the call blocks (bounded by time)
Progress == [][(st = "attempt" /\ st' = "attempt") => (wire' > wire \/ Len(bufs') < Len(bufs))]_vars
=============================================================================
