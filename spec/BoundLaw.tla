------------------------------ MODULE BoundLaw ------------------------------
(* C07 for separator framing at the library's own scale (limits of tens of kilobytes, reads of 16 KiB), where the byte-exact
   SepScan model is out of TLC's reach: a content-free law over ONE frame.

   par = [limit, seplen, maxread, payload, terminated]: the peer sends `payload` bytes that contain no separator, followed by the
   separator iff `terminated`.  The receiver is fed in reads of at most maxread bytes; every read has an outcome:
        "more" (nothing yet) | "pkt" (the frame is delivered) | "limit" (LimitOverrunError) | "err" (the complete frame is undecodable)
   and, where observable, the number of bytes the receiver holds afterwards.

   Laws:  Bound      while nothing is delivered or rejected the receiver never holds more than limit + one read + one separator;
          Converse   a frame safely under the limit (payload + separator <= limit - 1) is never rejected for its size and is delivered
                     by the read that completes it;
          Rejected   unterminated data is rejected at the latest by the read that takes it past limit + one read + one separator;
          a frame bigger than the limit is never delivered.                                                                  *)
EXTENDS Naturals, TLC
CONSTANTS Params
VARIABLES par, fed, state, maxheld
vars == <<par, fed, state, maxheld>>
Total == par.payload + (IF par.terminated THEN par.seplen ELSE 0)
Safe == par.terminated /\ par.payload + par.seplen <= par.limit - 1
Slack == par.limit + par.maxread + par.seplen
Init == par \in Params /\ fed = 0 /\ state = "open" /\ maxheld = 0
\* one read of n bytes with outcome k; held = bytes held afterwards (0 - 1 when it cannot be observed)
Read(n, k, held) ==
  /\ state = "open" /\ n \in 1..par.maxread /\ fed + n <= Total
  /\ fed' = fed + n
  /\ maxheld' = IF held > maxheld THEN held ELSE maxheld
  /\ CASE k = "more" -> /\ state' = "open"
                        /\ ~(Safe /\ fed + n = Total)             \* Converse: the completing read delivers
                        /\ fed + n <= Slack                       \* Rejected: past the slack a limit error is due
                        /\ (held >= 0 => held <= Slack)           \* Bound
       \* "err": the complete frame was handed to the decoder, which refused its content - not a matter of size
       [] k \in {"pkt", "err"} -> /\ state' = "delivered" /\ par.terminated /\ fed + n = Total /\ par.payload <= par.limit
       [] k = "limit" -> /\ state' = "rejected" /\ ~Safe
                         /\ fed + n >= par.limit - par.seplen     \* never while a frame that is still safe could complete
       [] OTHER -> FALSE
  /\ UNCHANGED par
Next == \E n \in 1..par.maxread, k \in {"more", "pkt", "err", "limit"}, h \in {0 - 1} : Read(n, k, h)
Spec == Init /\ [][Next]_vars
Bound == maxheld <= Slack
SafeDelivered == (Safe /\ fed = Total) => state = "delivered"
=============================================================================
