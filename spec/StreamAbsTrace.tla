--------------------------- MODULE StreamAbsTrace ---------------------------
(* trace = [ends |-> <<...>>, events |-> << [ev, n, idx, eq, held] >>]
   ev = "feed" n | "deliver" idx eq | "quiet" (consumer reports nothing deliverable) | "end" held (after the last byte)
   anything else the implementation did (a parse error, a crash, a wrong index) has no action: the trace is rejected.  *)
EXTENDS StreamAbs, Json, IOUtils

Traces == JsonDeserialize(IOEnv.TRACE_FILE)
VARIABLES tid, l
tvars == <<vars, tid, l>>
T == Traces[tid]
Ev == T.events[l]

TInit == tid \in 1..Len(Traces) /\ l = 1 /\ ends = Traces[tid].ends /\ fed = 0 /\ delivered = 0
IsEvent(e) == l <= Len(T.events) /\ Ev.ev = e /\ l' = l + 1 /\ UNCHANGED tid
TFeed == IsEvent("feed") /\ Feed(Ev.n)
TDeliver == IsEvent("deliver") /\ Deliver /\ Ev.idx = delivered + 1 /\ Ev.eq = TRUE
TQuiet == IsEvent("quiet") /\ delivered = Complete(fed) /\ UNCHANGED vars
TEnd == IsEvent("end") /\ fed = Total /\ delivered = Len(ends) /\ Ev.held = 0 /\ UNCHANGED vars
TNext == (NeverAhead = TRUE) /\ (TFeed \/ TDeliver \/ TQuiet \/ TEnd)

ASSUME \A t \in 1..Len(Traces) : TLCSet(t, 0)
Constr == TLCSet(tid, IF TLCGet(tid) > l THEN TLCGet(tid) ELSE l)
Post == LET bad == {t \in 1..Len(Traces) : TLCGet(t) <= Len(Traces[t].events)} IN
        IF bad = {} THEN TRUE ELSE PrintT(<<"REJECTED", [t \in bad |-> TLCGet(t)]>>) /\ FALSE
=============================================================================
