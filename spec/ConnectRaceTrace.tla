-------------------------- MODULE ConnectRaceTrace --------------------------
(* trace = [n |-> N, events |-> << [ev, i, nopen, which] >>]
   "start" i / "bindfail" i : attempt i created its socket and reached connect / failed to bind
   "ok" i / "err" i         : the harness completed the connect of attempt i (success / OSError)
   "ext_cancel"             : the harness cancelled the caller
   "obs"                    : quiescent observation of the number of open sockets
   "return" which           : the call returned socket number `which` (>0), raised the error group (0) or CancelledError (-1)
   nopen = number of sockets created by the library and not closed, read from the recording socket class at that moment.
   Cancellations reaching the losers are not logged: TLC interleaves CancelDelivered as silent steps; nopen binds them.   *)
EXTENDS ConnectRace, Json, IOUtils, Integers, Sequences

Traces == JsonDeserialize(IOEnv.TRACE_FILE)
VARIABLES tid, l
tvars == <<vars, tid, l>>
T == Traces[tid]
Ev == T.events[l]
TInit == /\ tid \in 1..Len(Traces) /\ l = 1 /\ n = Traces[tid].n
         /\ att = [i \in 1..Traces[tid].n |-> "idle"] /\ started = 0 /\ winner = 0 /\ scope = FALSE /\ ext = FALSE
         /\ errors = 0 /\ result = "none"
IsEvent(e) == l <= Len(T.events) /\ Ev.ev = e /\ l' = l + 1 /\ UNCHANGED tid
Obs == Ev.nopen < 0 \/ Ev.nopen = Cardinality({i \in 1..n : att'[i] \in {"connecting", "connected"}})
TStart == IsEvent("start") /\ Start /\ Ev.i = started' /\ Obs
TBindFail == IsEvent("bindfail") /\ StartBindFail /\ Ev.i = started' /\ Obs
TOk == IsEvent("ok") /\ Ev.i \in 1..n /\ FinishOk(Ev.i) /\ Obs
TErr == IsEvent("err") /\ Ev.i \in 1..n /\ FinishErr(Ev.i) /\ Obs
TExt == IsEvent("ext_cancel") /\ ExtCancel
\* the harness reads the number of open sockets once the loop is quiescent
TObs == IsEvent("obs") /\ UNCHANGED vars /\ Ev.nopen = Cardinality({i \in 1..n : att[i] \in {"connecting", "connected"}})
TReturn == /\ IsEvent("return") /\ Return /\ Obs
           /\ Ev.which = (IF result' = "sock" THEN winner ELSE IF result' = "error" THEN 0 ELSE 0 - 1)
Silent == (\E i \in 1..n : CancelDelivered(i)) /\ UNCHANGED <<tid, l>>
TNext == /\ (OneSocketNoLeak /\ AtMostOneConnected /\ ErrorMeansAllFailed) = TRUE
         /\ (TStart \/ TBindFail \/ TOk \/ TErr \/ TExt \/ TObs \/ TReturn \/ Silent)

ASSUME \A t \in 1..Len(Traces) : TLCSet(t, 0)
Constr == TLCSet(tid, IF TLCGet(tid) > l THEN TLCGet(tid) ELSE l)
Post == LET bad == {t \in 1..Len(Traces) : TLCGet(t) <= Len(Traces[t].events)} IN
        IF bad = {} THEN TRUE ELSE PrintT(<<"REJECTED", [t \in bad |-> TLCGet(t)]>>) /\ FALSE
=============================================================================
