#!/bin/sh
# usage: tools/run_all_thorough.sh   -- every property's thorough tier, one after the other; prints one line per property
cd "$(dirname "$0")/.."
for i in 01 02 03 04 05 06 07 08 09 10 11 12 13 14 15 16 17 18 19 20; do
  t0=$(date +%s)
  timeout 7200 /venv/bin/python -m vf.check C$i --tier thorough > /tmp/thorough_C$i.log 2>&1
  echo "C$i thorough rc=$? $(( $(date +%s) - t0 ))s $(grep -c '^VIOLATION' /tmp/thorough_C$i.log) violation line(s)"
done
