"""Probe (not a registered check): datagrams queued behind a UDP handler that ends with a *stray* CancelledError (it awaited a future somebody
else cancelled; the server is not shutting down) are never handled.  Run: PYTHONPATH=/repo/src /venv/bin/python tools/probe_c16_stray_cancel.py
Expected under C16: handled ['a', 'b', 'c', 'd'];  observed on the tree with fix 4f5b8cd: handled ['a', 'd'].  See DESIGN.md R.3 (open finding F20)."""
import asyncio, socket
from easynetwork.servers.async_udp import AsyncUDPNetworkServer
from easynetwork.servers.handlers import AsyncDatagramRequestHandler
from easynetwork.protocol import DatagramProtocol
from easynetwork.serializers.line import StringLineSerializer

handled=[]; futs=[]
class H(AsyncDatagramRequestHandler):
    async def handle(self, client):
        req = yield
        handled.append(req)
        if req == "a":
            f = asyncio.get_running_loop().create_future(); futs.append(f)
            await f          # somebody else cancels this future: the handler ends with a stray CancelledError
        await client.send_packet("ok " + req)

async def main():
    srv = AsyncUDPNetworkServer("127.0.0.1", 0, DatagramProtocol(StringLineSerializer()), H(), "asyncio")
    t = asyncio.create_task(srv.serve_forever())
    await asyncio.sleep(0.2)
    port = srv.get_addresses()[0].port
    c = socket.socket(socket.AF_INET, socket.SOCK_DGRAM); c.connect(("127.0.0.1", port)); c.settimeout(1)
    c.send(b"a"); await asyncio.sleep(0.1)
    c.send(b"b"); c.send(b"c"); await asyncio.sleep(0.1)   # queued behind the running handler
    futs[0].cancel(); await asyncio.sleep(0.3)
    c.send(b"d"); await asyncio.sleep(0.3)
    got=[]
    c.setblocking(False)
    while True:
        try: got.append(c.recv(100))
        except BlockingIOError: break
    print("handled", handled, "answers", got, "server alive", not t.done())
    await srv.server_close(); t.cancel()
    try: await t
    except BaseException: pass
asyncio.run(main())
