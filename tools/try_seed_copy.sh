#!/bin/sh
# usage: tools/try_seed_copy.sh <patch.diff> <property id> [tier]  -- like try_seed.sh but on a scratch copy of /repo/src (VERIF_REPO)
P=$1; ID=$2; TIER=${3:-quick}
D=$(mktemp -d /tmp/mutrepo_XXXX)
git -C /repo archive HEAD src | tar -x -C "$D"
cp /repo/src/easynetwork/version.py "$D/src/easynetwork/version.py"
(cd "$D" && patch -s -p1 < "$P") || { echo "patch does not apply"; rm -rf "$D"; exit 2; }
cd /verif
E=$(mktemp -d /tmp/mutev_XXXX)
VERIF_EVIDENCE_DIR=$E VERIF_REPO=$D timeout 3000 /venv/bin/python -m vf.check $ID --tier $TIER > /tmp/try_$ID.log 2>&1
rc=$?
rm -rf "$D" "$E"
grep -A1 "^VIOLATION\|^KNOWN\|MACHINERY" /tmp/try_$ID.log | sed "s#$E#<scratch evidence>#" | cut -c1-420 | head -6
echo "exit=$rc"
