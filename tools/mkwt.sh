#!/bin/sh
# usage: tools/mkwt.sh <dir>   -- scratch worktree of /repo (HEAD) usable with PYTHONPATH=<dir>/src
set -e
D=$1
git -C /repo worktree add -q --detach "$D" HEAD
cp /repo/src/easynetwork/version.py "$D/src/easynetwork/version.py"
echo "$D"
