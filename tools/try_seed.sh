#!/bin/sh
# usage: tools/try_seed.sh <patch.diff> <property id> [tier]
# applies the patch to /repo, runs the check, reverts. Prints the first VIOLATION lines and the exit code.
P=$1; ID=$2; TIER=${3:-quick}
cd /repo || exit 2
git diff --quiet || { echo "/repo is dirty"; exit 2; }
git apply "$P" || { echo "patch does not apply"; exit 2; }
cd /verif
cp evidence/$ID.json /tmp/ev_$ID.bak 2>/dev/null
timeout 3000 /venv/bin/python -m vf.check $ID --tier $TIER > /tmp/try_$ID.log 2>&1
rc=$?
cp /tmp/ev_$ID.bak evidence/$ID.json 2>/dev/null
git -C /repo checkout -- .
grep -A1 "^VIOLATION\|^KNOWN\|MACHINERY" /tmp/try_$ID.log | cut -c1-400 | head -8
echo "exit=$rc"
