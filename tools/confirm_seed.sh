#!/bin/sh
# usage: tools/confirm_seed.sh <worktree> <seed dir (with patch.diff, demo.py)> [nobaseline]
# Confirms: demo passes on the clean worktree, fails with the patch, baseline still green with the patch.
WT=$1; SD=$2
cd "$WT" || exit 2
git checkout -q -- src
PYTHONPATH=$WT/src timeout 300 /venv/bin/python "$SD/demo.py" > /tmp/confirm_clean.log 2>&1; c0=$?
git apply "$SD/patch.diff" || { echo "CONFIRM $SD: patch does not apply"; exit 2; }
PYTHONPATH=$WT/src timeout 300 /venv/bin/python "$SD/demo.py" > /tmp/confirm_patched.log 2>&1; c1=$?
b="skipped"
if [ "$3" != "nobaseline" ]; then b=$(/tmp/tools/run_baseline.sh "$WT" 2>&1 | grep "baseline stable_pass" ); fi
git checkout -q -- src
echo "CONFIRM $SD: demo_clean_exit=$c0 demo_patched_exit=$c1 baseline: $b"
