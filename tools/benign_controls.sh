#!/bin/sh
# Negative controls: property-preserving refactors (private attributes renamed, an internal buffer size changed) applied to a scratch
# copy of /repo/src; the named check must stay silent (exit 0).  usage: tools/benign_controls.sh
cd /verif
mkdir -p /tmp/benign
run() { # name check sed-expression file
  D=$(mktemp -d /tmp/mutrepo_XXXX); git -C /repo archive HEAD src | tar -x -C "$D"; cp /repo/src/easynetwork/version.py $D/src/easynetwork/
  sed -i "$3" $D/src/easynetwork/$4
  E=$(mktemp -d /tmp/mutev_XXXX)
  VERIF_EVIDENCE_DIR=$E VERIF_REPO=$D timeout 2400 /venv/bin/python -m vf.check $2 --tier quick > /tmp/benign/$1.log 2>&1; rc=$?
  rm -rf $E
  echo "$1 -> $2 exit=$rc violations=$(grep -c '^VIOLATION' /tmp/benign/$1.log)"
  rm -rf $D
}
run fairlock_queue_renamed      C12 's/_waiters/_queue_of_waiters/g'            lowlevel/api_async/backend/_common/fair_lock.py
run flowcontrol_waiters_renamed C20 's/__drain_waiters/__waiting_senders/g'      lowlevel/api_async/backend/_asyncio/_flow_control.py
run clientdata_queue_renamed    C16 's/_datagram_queue/_pending_datagrams/g'     lowlevel/api_async/servers/datagram.py
run protocol_bufsize_halved     C10 's/max_size: int = 256 \* 1024/max_size: int = 128 * 1024/' lowlevel/api_async/backend/_asyncio/stream/socket.py
run protocol_waiter_renamed     C10 's/__read_waiter/__pending_reader/g'         lowlevel/api_async/backend/_asyncio/stream/socket.py
run tls_reader_renamed          C08 's/__incoming_reader/__ciphertext_reader/g'  lowlevel/api_async/transports/tls.py
run tls_reader_renamed_c14      C14 's/__incoming_reader/__ciphertext_reader/g'  lowlevel/api_async/transports/tls.py
run adapter_transport_renamed   C20 's/__transport\b/__asyncio_transport/g'      lowlevel/api_async/backend/_asyncio/stream/socket.py
run adapter_transport_renamed14 C14 's/__transport\b/__asyncio_transport/g'      lowlevel/api_async/backend/_asyncio/stream/socket.py
run adapter_transport_renamed04 C04 's/__transport\b/__asyncio_transport/g'      lowlevel/api_async/backend/_asyncio/stream/socket.py
run client_sendlock_renamed     C12 's/__send_lock\b/__sending_lock/g'           clients/async_tcp.py
run client_sendlock_renamed14   C14 's/__send_lock\b/__sending_lock/g'           clients/async_tcp.py
run udp_client_endpoint_renamed C05 's/__endpoint\b/__ep/g'                      clients/async_udp.py
run dgram_listener_flow_renamed C20 's/__write_flow/__flow/g'                    lowlevel/api_async/backend/_asyncio/datagram/listener.py
run dgram_endpoint_closed_renamed C20 's/__closed\b/__close_waiter/g'            lowlevel/api_async/backend/_asyncio/datagram/endpoint.py
run tcpclient_lock_renamed      C11 's/__receive_lock/__recv_lock/g'             clients/tcp.py
run server_client_lock_renamed  C17 's/__send_lock\b/__sending_lock/g'           servers/async_tcp.py
run server_client_lock_renamed14 C14 's/__send_lock\b/__sending_lock/g'          servers/async_tcp.py
run stream_server_is_closing    C15 's/client_is_closing/client_closing_test/g'  servers/misc.py
run protocol_fastpath_sleep0    C13 's/await TaskUtils.coro_yield()/await asyncio.sleep(0)/' lowlevel/api_async/backend/_asyncio/stream/socket.py
run protocol_fastpath_sleep0_10 C10 's/await TaskUtils.coro_yield()/await asyncio.sleep(0)/' lowlevel/api_async/backend/_asyncio/stream/socket.py
run base64_digest_split         C05 's/data\[:-32\], data\[-32:\]/data[: max(len(data) - 32, 0)], data[-32:]/' serializers/wrapper/base64.py
run server_client_closing_renamed C14 's/__closing\b/__close_requested/g'        servers/async_tcp.py
# seventh round: the reason of ECONNABORTED hidden from the traceback (C09 caller-level classification), the blocking receiver's flag renamed (C03),
# the buffered request receiver catching OSError instead of Exception (C17: ssl errors are OSErrors), the limit error's tail scan bound renamed (C07)
run tcpclient_abort_from_none   C09 's/raise self.__abort() from exc/raise self.__abort() from None/' clients/tcp.py
run sync_receiver_flag_renamed  C03 's/_eof_reached/_end_of_stream_seen/g'       lowlevel/api_sync/endpoints/stream.py
run buffered_receiver_oserror   C17 's/                    except Exception as exc:/                    except (OSError, Exception) as exc:/' lowlevel/api_async/servers/stream.py
run sync_receiver_flag_renamed09 C09 's/_eof_reached/_end_of_stream_seen/g'      lowlevel/api_sync/endpoints/stream.py
