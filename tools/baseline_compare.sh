#!/bin/sh
# Runs the repository's pinned baseline with the guard OFF and compares the passing set with BASELINE.json.
# usage: tools/baseline_compare.sh [repo_dir]
REPO=${1:-/repo}
OUT=$(mktemp -d /tmp/vf_baseline_XXXX)
cd "$REPO" && env -u EASYNETWORK_VERIF PYTHONPATH="$REPO/src" /venv/bin/python -m pytest -ra -q -p no:cacheprovider --timeout=900 --continue-on-collection-errors --junitxml="$OUT/junit.xml" > "$OUT/log.txt" 2>&1
tail -3 "$OUT/log.txt"
/venv/bin/python - "$OUT/junit.xml" <<'PY'
import json, sys, xml.etree.ElementTree as ET
base = json.load(open('/root/.vp/BASELINE.json'))
want = set(base['stable_pass'])
last = {}
for tc in ET.parse(sys.argv[1]).getroot().iter('testcase'):
    # with pytest-rerunfailures a test may appear several times / carry <rerun> children: the final outcome counts
    bad = any(ch.tag in ('failure', 'error', 'skipped') for ch in tc)
    last[f"{tc.get('classname')}::{tc.get('name')}"] = not bad
got = {k for k, ok in last.items() if ok}
missing = sorted(want - got)
import re
summary = open(sys.argv[1].replace("junit.xml", "log.txt")).read().strip().splitlines()[-1]
m = re.search(r"(\d+) passed", summary)
npassed = int(m.group(1)) if m else -1
if npassed < len(want):
    missing = missing or ["(pytest summary reports only %d passed)" % npassed]
print(f"baseline stable_pass={len(want)} passed_now={len(got)} pytest_passed={npassed} missing={len(missing)}")
for m in missing[:20]:
    print("  MISSING", m)
sys.exit(1 if missing else 0)
PY
rc=$?
rm -rf "$OUT"
exit $rc
