#!/bin/sh
# Runs the repository's pinned baseline with the guard OFF and compares the passing set with BASELINE.json.
# usage: tools/baseline_compare.sh [repo_dir]
REPO=${1:-/repo}
OUT=$(mktemp -d /tmp/vf_baseline_XXXX)
cd "$REPO" && env -u EASYNETWORK_VERIF PYTHONPATH="$REPO/src" /venv/bin/python -m pytest -ra -q -p no:cacheprovider --timeout=900 --continue-on-collection-errors --junitxml="$OUT/junit.xml" > "$OUT/log.txt" 2>&1
tail -3 "$OUT/log.txt"
/venv/bin/python - "$OUT/junit.xml" <<'PY'
import json, sys, xml.etree.ElementTree as ET
base = json.load(open('/root/.vp/BASELINE.json'))
want = set(base['stable_pass'])
got = set()
for tc in ET.parse(sys.argv[1]).getroot().iter('testcase'):
    if not any(ch.tag in ('failure', 'error', 'skipped') for ch in tc):
        got.add(f"{tc.get('classname')}::{tc.get('name')}")
missing = sorted(want - got)
print(f"baseline stable_pass={len(want)} passed_now={len(got)} missing={len(missing)}")
for m in missing[:20]:
    print("  MISSING", m)
sys.exit(1 if missing else 0)
PY
rc=$?
rm -rf "$OUT"
exit $rc
