"""Print the prompt given to a mutation sub-agent for one property (only the property text and its worktree)."""
import json, sys
pid, wt = sys.argv[1], sys.argv[2]
start = int(sys.argv[3]) if len(sys.argv) > 3 else 1  # numbering of the seeds (second round: 4)
import glob, re
sites = []
for f in sorted(glob.glob(f'/verif/seeded/{pid}_*/patch.diff')):
    txt = open(f).read()
    files = re.findall(r'^\+\+\+ b/(\S+)', txt, re.M)
    funcs = re.findall(r'^@@ .*@@ (?:async )?(?:def|class) (\w+)', txt, re.M)
    sites.append(f"{', '.join(files)} ({', '.join(dict.fromkeys(funcs)) or 'module level'})")
avoid = ("\n\nAn earlier round already planted changes at these sites; choose DIFFERENT sites and different failure mechanisms this time: " + "; ".join(sites) + ".") if sites and start > 1 else ""
p = [json.loads(l) for l in open('/verif/properties.jsonl') if json.loads(l)['id'] == pid][0]
print(f"""You are testing a verification effort by planting realistic bugs. You work ONLY inside the scratch git worktree {wt} (a checkout of the Python library EasyNetwork: pure-Python TCP/UDP client/server library with incremental packet serializers, TLS transports and an asyncio backend). Do NOT read or modify /repo or /verif (never look inside /verif at all). Run Python as `PYTHONPATH={wt}/src /venv/bin/python` so that the worktree's sources are imported (check with `import easynetwork; print(easynetwork.__file__)`).

Here is a semantic property the library is supposed to satisfy:

  Title: {p['title']}
  Statement: {p['statement']}
  Quantified over: {p['quantifier']['text']}

Your task: produce up to THREE different, independent source changes (each a separate patch against the clean worktree, touching only files under src/easynetwork) such that each one:
  1. breaks the property above in the real code,
  2. still imports/compiles, and still passes the existing test-suite: run `/tmp/tools/run_baseline.sh {wt}` (takes ~3 minutes; it must print `missing=0`, meaning all tests that passed before still pass),
  3. is REALISTIC (the kind of slip a maintainer could make in a refactor or an "optimisation": an off-by-one, a wrong variable, a dropped branch, a reordered pair of statements, a lock released too early ...) and SUBTLE: it must need something specific to manifest - a particular chunking/interleaving/schedule, a fault or cancellation at a particular point, a multi-step sequence of operations, an unusual input, or two cooperating sites that each look fine alone. Changes that ordinary use would expose at once (everything fails) are not wanted. Prefer changes in different functions/files for the three patches, covering different aspects of the property.{avoid}

For each change k = {start}..{start + 2} create the directory {wt}/seeded/{pid}_k/ containing:
  - patch.diff : `git diff` of the change against the clean worktree (apply with `git apply`),
  - demo.py    : a small self-contained program (run as `PYTHONPATH={wt}/src /venv/bin/python demo.py`) that exits 0 on the clean worktree and exits non-zero (with a clear message showing the property violation) when the patch is applied,
  - notes.md   : which part of the property it breaks, what exactly is needed for it to manifest, and the output of the baseline run (the `missing=0` line) with the patch applied.
After saving each patch, restore the worktree (`git checkout -- src`) so the next patch is independent. Never use `git stash` (the stash is shared with other worktrees of the same repository): park a change with `git diff > file` and `git apply file`. Leave the worktree clean (apart from the seeded/ directory) when you finish.

Useful facts: only the standard library, pytest and hypothesis are available offline (no trio, cbor2, msgpack); asyncio is the only async backend installed. Source layout: src/easynetwork/{{serializers,lowlevel,clients,servers,protocol.py,...}}. Relevant files to read first: {', '.join(p['anchors']['files'][:8])}.

Finish with a short report: for each change, one paragraph (file/function changed, what it needs to manifest, demo result with and without the patch, baseline result).""")
