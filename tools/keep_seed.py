"""usage: keep_seed.py <seed dir> <property> <detected_by> <confirm line>  -- copy a confirmed seeded change into /verif/seeded/<id>/"""
import json, os, shutil, sys
src, prop, detected, confirm = sys.argv[1:5]
sid = os.path.basename(src.rstrip("/"))
dst = f"/verif/seeded/{sid}"
os.makedirs(dst, exist_ok=True)
for f in ("patch.diff", "demo.py", "notes.md"):
    if os.path.exists(os.path.join(src, f)):
        shutil.copy(os.path.join(src, f), os.path.join(dst, f))
notes = open(os.path.join(src, "notes.md")).read() if os.path.exists(os.path.join(src, "notes.md")) else ""
meta = {
    "id": sid,
    "breaks_property": prop,
    "needs_to_manifest": notes[:1500],
    "what_was_run": [
        "demo.py on the clean scratch worktree (exit 0) and with patch.diff applied (exit != 0)",
        "the repository baseline (pytest, BASELINE.json command) with the patch applied: no test of the stable pass set fails",
        f"git -C /repo apply patch.diff; /venv/bin/python -m vf.check {prop} --tier quick; git -C /repo checkout -- .",
    ],
    "confirmation": confirm,
    "detected_by": detected,
    "origin": "written by an independent sub-agent that was given only the property text and a scratch worktree",
}
json.dump(meta, open(os.path.join(dst, "meta.json"), "w"), indent=1)
print("kept", dst)
