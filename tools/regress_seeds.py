"""Re-run every kept seeded change against the check that is recorded as catching it (scratch copy of /repo/src via VERIF_REPO).
usage: python3 tools/regress_seeds.py [ids...]   -> writes seeded/REGRESSION.md"""
import json, os, re, subprocess, sys, tempfile, shutil, time
root = "/verif/seeded"
ids = sys.argv[1:] or sorted(d for d in os.listdir(root) if re.match(r"C\d\d_\d+$", d))
from concurrent.futures import ThreadPoolExecutor


def one(sid):
    meta = json.load(open(f"{root}/{sid}/meta.json"))
    m = re.match(r"(C\d\d)", meta.get("detected_by", ""))
    check = m.group(1) if m else meta["breaks_property"]
    d = tempfile.mkdtemp(prefix="mutrepo_", dir="/tmp")
    try:
        subprocess.run(f"git -C /repo archive HEAD src | tar -x -C {d} && cp /repo/src/easynetwork/version.py {d}/src/easynetwork/version.py", shell=True, check=True)
        p = subprocess.run(["patch", "-s", "-p1", "-i", f"{root}/{sid}/patch.diff"], cwd=d, capture_output=True, text=True)
        if p.returncode != 0:
            return (sid, check, "PATCH DOES NOT APPLY", 0)
        evd = tempfile.mkdtemp(prefix="mutev_", dir="/tmp")
        t0 = time.time()
        try:
            r = subprocess.run(["/venv/bin/python", "-m", "vf.check", check, "--tier", "quick"], cwd="/verif", env=dict(os.environ, VERIF_REPO=d, VERIF_EVIDENCE_DIR=evd), capture_output=True, text=True, timeout=3000)
            nv = sum(1 for l in r.stdout.splitlines() if l.startswith("VIOLATION"))
            row = (sid, check, f"exit={r.returncode} violations={nv}", int(time.time() - t0))
        except subprocess.TimeoutExpired:
            row = (sid, check, "TIMEOUT", int(time.time() - t0))
        shutil.rmtree(evd, ignore_errors=True)
        return row
    finally:
        shutil.rmtree(d, ignore_errors=True)


rows = []
with ThreadPoolExecutor(int(os.environ.get("REGRESS_JOBS", "4"))) as ex:
    for row in ex.map(one, ids):
        rows.append(row)
        print(row, flush=True)
with open(f"{root}/REGRESSION.md" if not sys.argv[1:] else "/tmp/REGRESSION_partial.md", "w") as f:
    f.write("# Seeded changes re-run against the current checks\n\nEach kept change applied to a scratch copy of `/repo/src` (HEAD), quick tier of the check recorded in its meta.json.\n\n| seed | check | result | seconds |\n|---|---|---|---|\n")
    for r in rows: f.write("| %s | %s | %s | %d |\n" % r)
    f.write(f"\n{sum(1 for r in rows if 'exit=1' in r[2])} of {len(rows)} detected.\n")
